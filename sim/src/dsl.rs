//! The workload DSL: a small concurrent program over loom primitives.
//!
//! A program is a table of objects plus one straight-line op list per thread (thread 0 is the
//! closure passed to `loom::model`; thread i>0 is started by a `Spawn{t:i}` op). The same program
//! is interpreted on real loom (`interp.rs`) and on the reference machine (`machine.rs`).

use serde::{Deserialize, Serialize};
use std::fmt;

pub const MAX_THREADS: usize = 5;

#[derive(Clone, Copy, Debug, PartialEq, Eq, Hash, PartialOrd, Ord, Serialize, Deserialize)]
pub enum MO {
    Rlx,
    Acq,
    Rel,
    AcqRel,
    Sc,
}

impl MO {
    pub fn is_acq(self) -> bool {
        matches!(self, MO::Acq | MO::AcqRel | MO::Sc)
    }
    pub fn is_rel(self) -> bool {
        matches!(self, MO::Rel | MO::AcqRel | MO::Sc)
    }
    pub fn is_sc(self) -> bool {
        self == MO::Sc
    }
    pub fn short(self) -> &'static str {
        match self {
            MO::Rlx => "rlx",
            MO::Acq => "acq",
            MO::Rel => "rel",
            MO::AcqRel => "ar",
            MO::Sc => "sc",
        }
    }
    pub fn to_std(self) -> std::sync::atomic::Ordering {
        use std::sync::atomic::Ordering::*;
        match self {
            MO::Rlx => Relaxed,
            MO::Acq => Acquire,
            MO::Rel => Release,
            MO::AcqRel => AcqRel,
            MO::Sc => SeqCst,
        }
    }
    /// Ordering used for the load part of a failed CAS / for a plain load given an RMW ordering.
    pub fn load_part(self) -> MO {
        match self {
            MO::Rel => MO::Rlx,
            MO::AcqRel => MO::Acq,
            o => o,
        }
    }
}

/// Result value used for `Recv` on a disconnected channel, failed try-ops etc.
pub const R_ERR: u64 = u64::MAX;
/// Result of TryRecv on an empty channel.
pub const R_EMPTY: u64 = u64::MAX - 1;

#[derive(Clone, Debug, PartialEq, Eq, Hash, Serialize, Deserialize)]
pub enum Op {
    // ---- atomics ----
    Load { a: u8, o: MO },
    Store { a: u8, v: u64, o: MO },
    Swap { a: u8, v: u64, o: MO },
    FetchAdd { a: u8, v: u64, o: MO },
    /// compare_exchange(e, n, so, fo); result = value read; success iff value read == e
    Cas { a: u8, e: u64, n: u64, so: MO, fo: MO },
    /// fetch_update(so, fo, |x| Some(x + v)); result = previous value
    FetchUpdate { a: u8, v: u64, so: MO, fo: MO },
    Fence { o: MO },
    /// `with_mut(|x| *x = v)` through exclusive access (non-atomic write)
    AWithMut { a: u8, v: u64 },
    /// `unsync_load()` (non-atomic read); result = value
    AUnsyncLoad { a: u8 },
    /// `while load(o) != v { yield_now() }`; result = v
    Await { a: u8, o: MO, v: u64 },
    /// `loop { yield_now(); if load(o) == v { break } }` (yields before every look)
    AwaitY { a: u8, o: MO, v: u64 },
    // ---- threads ----
    Spawn { t: u8 },
    Join { t: u8 },
    Yield,
    Park,
    Unpark { t: u8 },
    // ---- mutex ----
    Lock { m: u8 },
    /// result 1 = acquired, 0 = WouldBlock
    TryLock { m: u8 },
    /// releases m if this thread holds it (no-op otherwise)
    Unlock { m: u8 },
    /// lock + unlock of m performed by a destructor while a panic that is caught inside this
    /// thread unwinds (`catch_unwind(|| { let _s = Sentinel(m); panic!() })`)
    UnwindLock { m: u8 },
    // ---- rwlock ----
    RLock { l: u8 },
    TryRLock { l: u8 },
    WLock { l: u8 },
    TryWLock { l: u8 },
    RUnlock { l: u8 },
    WUnlock { l: u8 },
    // ---- condvar ----
    /// `cv.wait(guard of m)`; requires m held by this thread (no-op otherwise)
    CvWait { c: u8, m: u8 },
    /// `while a.load(o) != v { guard = cv.wait(guard) }` (the thread holds m)
    CvWaitUntil { c: u8, m: u8, a: u8, o: MO, v: u64 },
    CvOne { c: u8 },
    CvAll { c: u8 },
    // ---- Notify ----
    NWait { n: u8 },
    /// `while a.load(o) != v { n.wait() }`
    NWaitUntil { n: u8, a: u8, o: MO, v: u64 },
    NNotify { n: u8 },
    // ---- mpsc ----
    Send { c: u8, v: u64 },
    /// like `Send`, but the message's destructor sends `v + 1` on the same channel if the message is
    /// dropped without having been received (a job reporting its cancellation to its own queue)
    SendBomb { c: u8, v: u64 },
    /// result = value or R_ERR
    Recv { c: u8 },
    /// result = value, R_EMPTY or R_ERR
    TryRecv { c: u8 },
    /// drop the receiver (drains the channel first, as loom does)
    DropRx { c: u8 },
    /// drop this thread's sender clone
    DropTx { c: u8 },
    // ---- UnsafeCell ----
    CRead { c: u8 },
    /// write the (unique) value v into the cell
    CWrite { c: u8, v: u64 },
    // ---- loom::sync::Arc ----
    /// clone one of this thread's handles of arc r (no-op if it holds none)
    ArcClone { r: u8 },
    /// drop one of this thread's handles (no-op if none); result 1 if the payload was dropped by this op
    ArcDrop { r: u8 },
    /// strong_count through one of this thread's handles; result = count (no-op if none)
    ArcCount { r: u8 },
    /// get_mut; result 1 = Some
    ArcGetMut { r: u8 },
    /// try_unwrap; result 1 = Ok (handle consumed, payload owned then dropped by this thread)
    ArcTryUnwrap { r: u8 },
    /// mem::forget one handle (leaks it)
    ArcForget { r: u8 },
    /// into_raw + from_raw round trip of one handle (no count change)
    ArcRawRoundTrip { r: u8 },
    /// into_raw; increment_strong_count; from_raw twice => one more handle
    ArcIncStrong { r: u8 },
    /// into_raw; decrement_strong_count => one handle fewer (like drop); result as ArcDrop
    ArcDecStrong { r: u8 },
    /// give one handle to thread t through a harness slot (t takes it at its `ArcTake`)
    ArcGive { r: u8, t: u8 },
    /// hand all of this thread's handles of arc r back (like returning them from the thread's
    /// closure); whoever joins the thread may pick them up with `ArcCollect`
    ArcReturn { r: u8 },
    /// take the handles returned by finished threads (only meaningful after joining them)
    ArcCollect { r: u8 },
    // ---- leak tracking ----
    TrackNew { k: u8 },
    TrackDrop { k: u8 },
    Alloc { k: u8 },
    Dealloc { k: u8 },
    // ---- thread_local / lazy_static ----
    /// KEYk.with(|v| read) ; result = 1 if this access ran the initialiser
    TlsWith { k: u8 },
    /// KEYk.with(|_| KEYj.with(|_| ..))
    TlsNested { k: u8, j: u8 },
    /// LAZYk deref; result = value observed in the static (its init stamp)
    LazyGet { k: u8 },
    // ---- futures (feature `futures`) ----
    /// `block_on(poll_fn(|cx| { [register cx.waker() in the shared AtomicWaker;] if flag.load(o) == v
    /// { Ready } else { [register;] Pending } }))`. `reg_first`: register before looking at the flag
    /// (the correct protocol) or after (wake-ups can be lost).
    BlockOn { a: u8, v: u64, o: MO, reg_first: bool },
    /// `AtomicWaker::wake()` on the shared AtomicWaker
    AwWake,
    /// `block_on` of a future that wakes itself by reference on its first poll (returning
    /// Pending) and is ready on the second: always completes
    SelfWake,
    /// `block_on(poll_fn(..))` of a future that is ready when `a == va && b == vb`; on its first
    /// poll it hands a clone of its waker to each of the two waker slots
    BlockOn2 { a: u8, va: u64, b: u8, vb: u64, o: MO },
    /// wake through the waker clone in slot `i` (by value: the clone is consumed; by reference: it
    /// stays). No-op while the slot is empty.
    SlotWake { i: u8, by_ref: bool },
    // ---- exploration controls ----
    StopExploring,
    Explore,
    SkipBranch,
    // ---- structured ----
    /// execute `then` iff the result of this thread's op #pc equals `eq`
    If { pc: u8, eq: u64, then: Box<Op> },
    /// FAULT: a panic is raised and caught (`catch_unwind`) inside the model; `op` is performed by a
    /// destructor while that panic unwinds (`std::thread::panicking()` is true)
    Caught { op: Box<Op> },
    // ---- faults ----
    Panic { marker: u32 },
    /// exit the process with code 77 (crash fault)
    Crash,
}

impl Op {
    /// true if the op yields a value that is part of the outcome
    pub fn has_result(&self) -> bool {
        match self {
            Op::Load { .. }
            | Op::Swap { .. }
            | Op::FetchAdd { .. }
            | Op::Cas { .. }
            | Op::FetchUpdate { .. }
            | Op::AUnsyncLoad { .. }
            | Op::CRead { .. }
            | Op::TryLock { .. }
            | Op::TryRLock { .. }
            | Op::TryWLock { .. }
            | Op::Recv { .. }
            // (did the spin loop have to wait? 0 / 1)
            | Op::Await { .. }
            | Op::TryRecv { .. }
            | Op::ArcDrop { .. }
            | Op::ArcCount { .. }
            | Op::ArcGetMut { .. }
            | Op::ArcTryUnwrap { .. }
            | Op::ArcDecStrong { .. }
            | Op::TlsWith { .. }
            | Op::LazyGet { .. } => true,
            Op::If { then, .. } => then.has_result(),
            Op::Caught { op } => op.has_result(),
            _ => false,
        }
    }

    /// the operation itself, without `If` / `Caught` wrappers
    pub fn inner(&self) -> &Op {
        let mut o = self;
        loop {
            match o {
                Op::If { then, .. } => o = then,
                Op::Caught { op } => o = op,
                _ => return o,
            }
        }
    }

    pub fn is_caught(&self) -> bool {
        let mut o = self;
        loop {
            match o {
                Op::If { then, .. } => o = then,
                Op::Caught { .. } => return true,
                _ => return false,
            }
        }
    }

    pub fn atomic_loc(&self) -> Option<u8> {
        match self {
            Op::Load { a, .. }
            | Op::Store { a, .. }
            | Op::Swap { a, .. }
            | Op::FetchAdd { a, .. }
            | Op::Cas { a, .. }
            | Op::FetchUpdate { a, .. }
            | Op::AWithMut { a, .. }
            | Op::AUnsyncLoad { a }
            | Op::Await { a, .. }
            | Op::BlockOn { a, .. }
            | Op::AwaitY { a, .. }
            | Op::CvWaitUntil { a, .. }
            | Op::NWaitUntil { a, .. } => Some(*a),
            Op::If { then, .. } => then.atomic_loc(),
            Op::Caught { op } => op.atomic_loc(),
            _ => None,
        }
    }

    pub fn is_atomic_write(&self) -> bool {
        matches!(
            self,
            Op::Store { .. }
                | Op::Swap { .. }
                | Op::FetchAdd { .. }
                | Op::Cas { .. }
                | Op::FetchUpdate { .. }
        )
    }
}

impl fmt::Display for Op {
    fn fmt(&self, f: &mut fmt::Formatter<'_>) -> fmt::Result {
        use Op::*;
        match self {
            Load { a, o } => write!(f, "ld(a{},{})", a, o.short()),
            Store { a, v, o } => write!(f, "st(a{},{},{})", a, v, o.short()),
            Swap { a, v, o } => write!(f, "swap(a{},{},{})", a, v, o.short()),
            FetchAdd { a, v, o } => write!(f, "add(a{},{},{})", a, v, o.short()),
            Cas { a, e, n, so, fo } => {
                write!(f, "cas(a{},{}->{},{},{})", a, e, n, so.short(), fo.short())
            }
            FetchUpdate { a, v, so, fo } => {
                write!(f, "fupd(a{},+{},{},{})", a, v, so.short(), fo.short())
            }
            Fence { o } => write!(f, "fence({})", o.short()),
            AWithMut { a, v } => write!(f, "withmut(a{},{})", a, v),
            AUnsyncLoad { a } => write!(f, "unsync(a{})", a),
            Await { a, o, v } => write!(f, "await(a{},{},{})", a, o.short(), v),
            AwaitY { a, o, v } => write!(f, "yield_await(a{},{},{})", a, o.short(), v),
            Spawn { t } => write!(f, "spawn(T{})", t),
            Join { t } => write!(f, "join(T{})", t),
            Yield => write!(f, "yield"),
            Park => write!(f, "park"),
            Unpark { t } => write!(f, "unpark(T{})", t),
            Lock { m } => write!(f, "lock(m{})", m),
            TryLock { m } => write!(f, "trylock(m{})", m),
            Unlock { m } => write!(f, "unlock(m{})", m),
            UnwindLock { m } => write!(f, "unwind_lock(m{})", m),
            RLock { l } => write!(f, "read(rw{})", l),
            TryRLock { l } => write!(f, "tryread(rw{})", l),
            WLock { l } => write!(f, "write(rw{})", l),
            TryWLock { l } => write!(f, "trywrite(rw{})", l),
            RUnlock { l } => write!(f, "runlock(rw{})", l),
            WUnlock { l } => write!(f, "wunlock(rw{})", l),
            CvWait { c, m } => write!(f, "cvwait(cv{},m{})", c, m),
            CvWaitUntil { c, m, a, o, v } => write!(f, "cvwait_until(cv{},m{},a{},{},{})", c, m, a, o.short(), v),
            NWaitUntil { n, a, o, v } => write!(f, "nwait_until(n{},a{},{},{})", n, a, o.short(), v),
            CvOne { c } => write!(f, "notify_one(cv{})", c),
            CvAll { c } => write!(f, "notify_all(cv{})", c),
            NWait { n } => write!(f, "nwait(n{})", n),
            NNotify { n } => write!(f, "nnotify(n{})", n),
            Send { c, v } => write!(f, "send(ch{},{})", c, v),
            SendBomb { c, v } => write!(f, "send_with_drop_report(ch{},{})", c, v),
            Recv { c } => write!(f, "recv(ch{})", c),
            TryRecv { c } => write!(f, "tryrecv(ch{})", c),
            DropRx { c } => write!(f, "droprx(ch{})", c),
            DropTx { c } => write!(f, "droptx(ch{})", c),
            CRead { c } => write!(f, "cread(c{})", c),
            CWrite { c, v } => write!(f, "cwrite(c{},{})", c, v),
            ArcClone { r } => write!(f, "arc_clone(r{})", r),
            ArcDrop { r } => write!(f, "arc_drop(r{})", r),
            ArcCount { r } => write!(f, "arc_count(r{})", r),
            ArcGetMut { r } => write!(f, "arc_getmut(r{})", r),
            ArcTryUnwrap { r } => write!(f, "arc_tryunwrap(r{})", r),
            ArcForget { r } => write!(f, "arc_forget(r{})", r),
            ArcRawRoundTrip { r } => write!(f, "arc_raw(r{})", r),
            ArcIncStrong { r } => write!(f, "arc_inc(r{})", r),
            ArcDecStrong { r } => write!(f, "arc_dec(r{})", r),
            ArcGive { r, t } => write!(f, "arc_give(r{},T{})", r, t),
            ArcReturn { r } => write!(f, "arc_return(r{})", r),
            ArcCollect { r } => write!(f, "arc_collect(r{})", r),
            TrackNew { k } => write!(f, "track_new(k{})", k),
            TrackDrop { k } => write!(f, "track_drop(k{})", k),
            Alloc { k } => write!(f, "alloc(b{})", k),
            Dealloc { k } => write!(f, "dealloc(b{})", k),
            TlsWith { k } => write!(f, "tls(k{})", k),
            TlsNested { k, j } => write!(f, "tls(k{};k{})", k, j),
            LazyGet { k } => write!(f, "lazy(z{})", k),
            BlockOn { a, v, o, reg_first } => write!(f, "block_on(a{}=={},{},{})", a, v, o.short(), if *reg_first { "register-then-check" } else { "check-then-register" }),
            AwWake => write!(f, "aw_wake"),
            SelfWake => write!(f, "block_on(self_wake_once)"),
            BlockOn2 { a, va, b, vb, o } => write!(f, "block_on(a{}=={}&&a{}=={},{})", a, va, b, vb, o.short()),
            SlotWake { i, by_ref } => write!(f, "{}(slot{})", if *by_ref { "wake_by_ref" } else { "wake" }, i),
            StopExploring => write!(f, "stop_exploring"),
            Explore => write!(f, "explore"),
            SkipBranch => write!(f, "skip_branch"),
            If { pc, eq, then } => write!(f, "if(r{}=={}){{{}}}", pc, eq, then),
            Caught { op } => write!(f, "caught_unwind{{{}}}", op),
            Panic { marker } => write!(f, "panic({})", marker),
            Crash => write!(f, "crash"),
        }
    }
}

#[derive(Clone, Debug, Default, PartialEq, Eq, Hash, Serialize, Deserialize)]
pub struct Program {
    /// initial values of the atomics
    pub atomics: Vec<u64>,
    pub n_mutex: u8,
    pub n_rwlock: u8,
    pub n_condvar: u8,
    pub n_notify: u8,
    pub n_chan: u8,
    pub n_cell: u8,
    /// for every Arc object: the threads that own one handle when they start (main creates it and
    /// clones one handle per listed spawned thread before spawning it)
    pub arcs: Vec<Vec<u8>>,
    pub n_track: u8,
    pub n_block: u8,
    /// per thread op list; threads[0] is main
    pub threads: Vec<Vec<Op>>,
}

impl Program {
    pub fn n_threads(&self) -> usize {
        self.threads.len()
    }

    pub fn total_ops(&self) -> usize {
        self.threads.iter().map(|t| t.len()).sum()
    }

    pub fn text(&self) -> String {
        self.to_string()
    }

    pub fn hash(&self) -> u64 {
        crate::rng::hash_str(&self.text())
    }

    /// A program is "non-trivial" if it has >= 2 threads and at least one pair of ops of different
    /// threads touching the same shared object, one of which is not a pure read.
    pub fn nontrivial(&self) -> bool {
        if self.threads.len() < 2 {
            return false;
        }
        fn key(op: &Op) -> Option<(u8, u8, bool)> {
            // (kind, index, is_read_only)
            use Op::*;
            Some(match op {
                Load { a, .. } | AUnsyncLoad { a } | Await { a, .. } | AwaitY { a, .. } | BlockOn { a, .. } => (0, *a, true),
                AwWake | SlotWake { .. } | BlockOn2 { .. } => (10, 0, false),
                Store { a, .. }
                | Swap { a, .. }
                | FetchAdd { a, .. }
                | Cas { a, .. }
                | FetchUpdate { a, .. }
                | AWithMut { a, .. } => (0, *a, false),
                Lock { m } | TryLock { m } | Unlock { m } | UnwindLock { m } => (1, *m, false),
                CvWait { c, .. } | CvWaitUntil { c, .. } | CvOne { c } | CvAll { c } => (3, *c, false),
                RLock { l } | TryRLock { l } | RUnlock { l } => (2, *l, true),
                WLock { l } | TryWLock { l } | WUnlock { l } => (2, *l, false),
                NWait { n } | NWaitUntil { n, .. } | NNotify { n } => (4, *n, false),
                Send { c, .. } | SendBomb { c, .. } | Recv { c } | TryRecv { c } | DropRx { c } | DropTx { c } => {
                    (5, *c, false)
                }
                CRead { c } => (6, *c, true),
                CWrite { c, .. } => (6, *c, false),
                ArcClone { r }
                | ArcDrop { r }
                | ArcGetMut { r }
                | ArcTryUnwrap { r }
                | ArcIncStrong { r }
                | ArcDecStrong { r } => (7, *r, false),
                ArcCount { r } => (7, *r, true),
                LazyGet { k } => (8, *k, false),
                Park | Unpark { .. } => (9, 0, false),
                If { then, .. } => return key(then),
                Caught { op } => return key(op),
                _ => return None,
            })
        }
        for (i, ti) in self.threads.iter().enumerate() {
            for tj in self.threads.iter().skip(i + 1) {
                for a in ti {
                    for b in tj {
                        if let (Some(ka), Some(kb)) = (key(a), key(b)) {
                            if ka.0 == kb.0 && ka.1 == kb.1 && !(ka.2 && kb.2) {
                                return true;
                            }
                        }
                    }
                }
            }
        }
        false
    }
}

impl fmt::Display for Program {
    fn fmt(&self, f: &mut fmt::Formatter<'_>) -> fmt::Result {
        write!(f, "obj:")?;
        for (i, v) in self.atomics.iter().enumerate() {
            write!(f, " a{}={}", i, v)?;
        }
        for i in 0..self.n_mutex {
            write!(f, " m{}", i)?;
        }
        for i in 0..self.n_rwlock {
            write!(f, " rw{}", i)?;
        }
        for i in 0..self.n_condvar {
            write!(f, " cv{}", i)?;
        }
        for i in 0..self.n_notify {
            write!(f, " n{}", i)?;
        }
        for i in 0..self.n_chan {
            write!(f, " ch{}", i)?;
        }
        for i in 0..self.n_cell {
            write!(f, " c{}", i)?;
        }
        for (i, owners) in self.arcs.iter().enumerate() {
            write!(f, " r{}{:?}", i, owners)?;
        }
        for i in 0..self.n_track {
            write!(f, " k{}", i)?;
        }
        for i in 0..self.n_block {
            write!(f, " b{}", i)?;
        }
        for (t, ops) in self.threads.iter().enumerate() {
            write!(f, " | T{}:", t)?;
            for op in ops {
                write!(f, " {}", op)?;
            }
        }
        Ok(())
    }
}

/// loom `Builder` settings chosen by the simulator.
#[derive(Clone, Debug, PartialEq, Eq, Serialize, Deserialize)]
pub struct Config {
    pub preemption_bound: Option<usize>,
    pub max_branches: usize,
    pub max_threads: usize,
    pub max_permutations: Option<usize>,
    pub checkpoint_interval: usize,
    pub checkpoint_file: Option<String>,
    pub expect_explicit_explore: bool,
    /// `Builder::max_duration` in milliseconds (read against the simulated clock, hook H2)
    #[serde(default)]
    pub max_duration_ms: Option<u64>,
    /// harness-side cap on iterations (the run is abandoned as too_large beyond it)
    pub iter_cap: usize,
}

impl Default for Config {
    fn default() -> Config {
        Config {
            preemption_bound: None,
            max_branches: 1000,
            max_threads: MAX_THREADS,
            max_permutations: None,
            checkpoint_interval: 20_000,
            checkpoint_file: None,
            expect_explicit_explore: false,
            max_duration_ms: None,
            iter_cap: 20_000,
        }
    }
}
