//! Supervisor / worker processes, evidence and replay files.
//!
//! Process isolation is part of the design: loom can abort the process (a verdict, for some
//! properties) and a worker that dies must not take the batch with it.

use crate::cases::CaseReport;
use crate::checks::*;
use serde_json::{json, Value};
use std::collections::{BTreeMap, BTreeSet};
use std::io::{BufRead, BufReader, Write};
use std::process::{Command, Stdio};
use std::sync::mpsc;
use std::time::{Duration, Instant};

fn report_json(run: u64, case: &Case, rep: &CaseReport, with_case: bool) -> Value {
    let mut v = json!({
        "run": run,
        "program": rep.program,
        "program_hash": format!("{:016x}", rep.program_hash),
        "nontrivial": rep.nontrivial,
        "status": rep.status,
        "iterations": rep.iterations,
        "loom_outcomes": rep.loom_outcomes,
        "ref_outcomes": rep.ref_outcomes,
        "walks": rep.walks,
        "walk_steps": rep.walk_steps,
        "distinct_paths": rep.distinct_paths,
        "distinct_ref_schedules": rep.distinct_ref_schedules,
        "o2_checked": rep.o2_checked,
        "too_large": rep.too_large,
        "outcomes_hash": format!("{:016x}", rep.outcomes_hash),
        "violations": rep.violations,
        "probes": rep.probes,
        "extra": rep.extra,
    });
    if with_case || !rep.violations.is_empty() {
        v["case"] = json!({"program": case.program, "config": case.config});
        v["sample"] = rep.sample.clone().unwrap_or(Value::Null);
    }
    v
}

pub fn worker(check: &str, tier: &str, seed: u64, stride: u64, start: u64, runs: u64) {
    crate::interp::install_quiet_panic_hook();
    let out = std::io::stdout();
    let mut run = start;
    while run < runs {
        {
            let mut o = out.lock();
            writeln!(o, "BEGIN {}", run).unwrap();
            o.flush().unwrap();
        }
        let case = generate(check, tier, seed, run);
        let mut rep = judge(check, tier, &case, seed, run);
        // C06 invariant ("a later model run in the same process starts clean"): after a model
        // run has returned or unwound to the harness, this OS thread must not be left in the
        // "panicking" state (that happens when a modeled thread is abandoned in the middle of
        // unwinding a panic: its stack is leaked and the panic count never drops)
        let dirty = std::thread::panicking();
        if dirty {
            let has_unwind_lock = case.program.threads.iter().flatten().any(|o| matches!(o.inner(), crate::dsl::Op::UnwindLock { .. }));
            rep.violations.push(crate::cases::Violation {
                kind: "process_dirty".into(),
                detail: "after the model run std::thread::panicking() stays true on the calling thread: a later model run in this process does not start clean".into(),
                known: if has_unwind_lock { Some("K7-panicking-flag-shared-by-modeled-threads".to_string()) } else { None },
                evidence: serde_json::json!({}),
            });
        }
        let v = report_json(run, &case, &rep, run < 3 * stride);
        {
            let mut o = out.lock();
            writeln!(o, "RES {}", v).unwrap();
            o.flush().unwrap();
        }
        if dirty {
            // later runs must not inherit the state: the supervisor starts a fresh worker
            std::process::exit(3);
        }
        run += stride;
    }
}

pub fn one(check: &str, tier: &str, seed: u64, run: u64) {
    crate::interp::install_quiet_panic_hook();
    let case = generate(check, tier, seed, run);
    println!("program: {}", case.program);
    let t0 = Instant::now();
    let rep = judge(check, tier, &case, seed, run);
    let v = report_json(run, &case, &rep, true);
    println!("{}", serde_json::to_string_pretty(&v).unwrap());
    println!("wall: {:?}", t0.elapsed());
}

fn verif_dir() -> std::path::PathBuf {
    env_path("VERIF_DIR").unwrap_or_else(|| std::path::PathBuf::from("/verif"))
}
fn env_path(k: &str) -> Option<std::path::PathBuf> {
    std::env::var(k).ok().map(Into::into)
}

#[derive(Clone, Debug)]
struct Known {
    id: String,
    properties: Vec<String>,
    status: String,
    what: String,
}

fn load_known() -> Vec<Known> {
    let path = verif_dir().join("known_findings.txt");
    let mut out = Vec::new();
    if let Ok(s) = std::fs::read_to_string(path) {
        for line in s.lines() {
            let line = line.trim();
            if line.is_empty() || line.starts_with('#') {
                continue;
            }
            if let Ok(v) = serde_json::from_str::<Value>(line) {
                out.push(Known {
                    id: v["id"].as_str().unwrap_or("").to_string(),
                    properties: v["properties"]
                        .as_array()
                        .map(|a| a.iter().filter_map(|x| x.as_str().map(String::from)).collect())
                        .unwrap_or_default(),
                    status: v["status"].as_str().unwrap_or("open").to_string(),
                    what: v["what"].as_str().unwrap_or("").to_string(),
                });
            }
        }
    }
    out
}

enum Msg {
    Line(usize, String),
    Eof(usize),
}

struct WorkerState {
    child: std::process::Child,
    current: Option<u64>,
    began: Instant,
    next_start: u64,
    done: bool,
}

fn spawn_worker(check: &str, tier: &str, seed: u64, stride: u64, start: u64, runs: u64, idx: usize, tx: &mpsc::Sender<Msg>) -> std::process::Child {
    let exe = std::env::current_exe().unwrap();
    let mut child = Command::new(exe)
        .args(["worker", check, tier, &seed.to_string(), &stride.to_string(), &start.to_string(), &runs.to_string()])
        .stdin(Stdio::null())
        .stdout(Stdio::piped())
        .stderr(Stdio::null())
        .spawn()
        .expect("spawn worker");
    let stdout = child.stdout.take().unwrap();
    let tx = tx.clone();
    std::thread::spawn(move || {
        let r = BufReader::new(stdout);
        for line in r.lines() {
            match line {
                Ok(l) => {
                    if tx.send(Msg::Line(idx, l)).is_err() {
                        return;
                    }
                }
                Err(_) => break,
            }
        }
        let _ = tx.send(Msg::Eof(idx));
    });
    child
}

pub fn supervise(check: &str, tier: &str) -> i32 {
    let def = match check_def(check) {
        Some(d) => d,
        None => {
            eprintln!("unknown check {}", check);
            return 2;
        }
    };
    let tier = if tier == "quick" || tier == "thorough" { tier } else { "quick" };
    let seed: u64 = std::env::var("VERIF_SEED").ok().and_then(|s| s.parse().ok()).unwrap_or(1);
    let runs: u64 = std::env::var("VERIF_RUNS")
        .ok()
        .and_then(|s| s.parse().ok())
        .unwrap_or(if tier == "quick" { def.quick_runs } else { def.thorough_runs });
    let nworkers: u64 = std::env::var("VERIF_WORKERS")
        .ok()
        .and_then(|s| s.parse().ok())
        .unwrap_or_else(|| std::thread::available_parallelism().map(|n| n.get() as u64).unwrap_or(4).min(16));
    let hang_limit = Duration::from_secs(if tier == "quick" { 240 } else { 1200 });
    let t0 = Instant::now();
    println!("check {} tier={} VERIF_SEED={} runs={} workers={}", check, tier, seed, runs, nworkers);

    let (tx, rx) = mpsc::channel::<Msg>();
    let mut ws: Vec<WorkerState> = Vec::new();
    for w in 0..nworkers {
        let child = spawn_worker(check, tier, seed, nworkers, w, runs, w as usize, &tx);
        ws.push(WorkerState { child, current: None, began: Instant::now(), next_start: w, done: false });
    }
    let mut results: BTreeMap<u64, Value> = BTreeMap::new();
    let mut died: Vec<(u64, String)> = Vec::new();
    let mut harness_errors: Vec<String> = Vec::new();
    let mut live = nworkers as usize;
    while live > 0 {
        match rx.recv_timeout(Duration::from_secs(1)) {
            Ok(Msg::Line(i, l)) => {
                if let Some(rest) = l.strip_prefix("BEGIN ") {
                    ws[i].current = rest.trim().parse().ok();
                    ws[i].began = Instant::now();
                } else if let Some(rest) = l.strip_prefix("RES ") {
                    match serde_json::from_str::<Value>(rest) {
                        Ok(v) => {
                            let run = v["run"].as_u64().unwrap();
                            results.insert(run, v);
                            ws[i].current = None;
                            ws[i].next_start = run + nworkers;
                        }
                        Err(e) => harness_errors.push(format!("bad RES line from worker {}: {}", i, e)),
                    }
                }
            }
            Ok(Msg::Eof(i)) => {
                let status = ws[i].child.wait();
                let ok = status.as_ref().map(|s| s.success()).unwrap_or(false);
                if let Some(run) = ws[i].current.take() {
                    // died in the middle of run `run`
                    let how = match status {
                        Ok(s) => format!("{}", s),
                        Err(e) => format!("{}", e),
                    };
                    died.push((run, how));
                    let next = run + nworkers;
                    if next < runs {
                        let child = spawn_worker(check, tier, seed, nworkers, next, runs, i, &tx);
                        ws[i].child = child;
                        ws[i].began = Instant::now();
                        ws[i].next_start = next;
                        continue;
                    }
                } else if !ok && ws[i].next_start < runs {
                    let code = status.as_ref().ok().and_then(|s| s.code());
                    if code == Some(3) {
                        // the worker retired itself (process state left dirty by its last run)
                        let next = ws[i].next_start;
                        let child = spawn_worker(check, tier, seed, nworkers, next, runs, i, &tx);
                        ws[i].child = child;
                        ws[i].began = Instant::now();
                        continue;
                    }
                    harness_errors.push(format!("worker {} exited abnormally between runs", i));
                }
                ws[i].done = true;
                live -= 1;
            }
            Err(mpsc::RecvTimeoutError::Timeout) => {
                for w in ws.iter_mut() {
                    if !w.done && w.current.is_some() && w.began.elapsed() > hang_limit {
                        // a hung run: kill; the EOF handler records it as died
                        let _ = w.child.kill();
                    }
                }
            }
            Err(mpsc::RecvTimeoutError::Disconnected) => break,
        }
    }

    // confirm deaths by a solo re-run
    let mut death_violations: Vec<Value> = Vec::new();
    for (run, how) in &died {
        let exe = std::env::current_exe().unwrap();
        let mut child = Command::new(exe)
            .args(["worker", check, tier, &seed.to_string(), &runs.to_string(), &run.to_string(), &(run + 1).to_string()])
            .stdin(Stdio::null())
            .stdout(Stdio::piped())
            .stderr(Stdio::null())
            .spawn()
            .expect("spawn solo worker");
        let started = Instant::now();
        let mut finished = None;
        loop {
            match child.try_wait() {
                Ok(Some(st)) => {
                    finished = Some(st);
                    break;
                }
                Ok(None) => {
                    if started.elapsed() > hang_limit {
                        let _ = child.kill();
                        let _ = child.wait();
                        break;
                    }
                    std::thread::sleep(Duration::from_millis(50));
                }
                Err(_) => break,
            }
        }
        let reproduced = match finished {
            Some(st) => !st.success(),
            None => true,
        };
        if reproduced {
            let case = generate(check, tier, seed, *run);
            death_violations.push(json!({
                "run": run,
                "program": case.program.text(),
                "case": {"program": case.program, "config": case.config},
                "violations": [{
                    "kind": if finished.is_some() { "abort" } else { "hang" },
                    "detail": format!("the worker process running this program died ({}) instead of loom::model unwinding or returning", how),
                    "known": crate::checks::death_known(check, &case),
                    "evidence": {"exit": how},
                }],
            }));
        } else {
            harness_errors.push(format!("run {} died once ({}) but not on a solo re-run", run, how));
        }
    }

    // ---------------- aggregate
    let known = load_known();
    let mut evaluations = 0u64;
    let mut nontrivial: BTreeSet<String> = BTreeSet::new();
    let mut iterations = 0u64;
    let mut paths = 0u64;
    let mut walks = 0u64;
    let mut walk_steps = 0u64;
    let mut ref_scheds = 0u64;
    let mut too_large = 0u64;
    let mut o2_checked = 0u64;
    let mut probes: BTreeMap<String, u64> = BTreeMap::new();
    let mut status_counts: BTreeMap<String, u64> = BTreeMap::new();
    let mut samples: Vec<Value> = Vec::new();
    let mut unknown: Vec<(u64, Value, Value)> = Vec::new(); // (run, violation, result)
    let mut known_hits: BTreeMap<String, (u64, u64, Value)> = BTreeMap::new(); // id -> (count, first run, result)
    let mut digest: u64 = 0;
    let all_results: Vec<&Value> = results.values().chain(death_violations.iter()).collect();
    for v in &all_results {
        evaluations += 1;
        if v["nontrivial"].as_bool().unwrap_or(false) {
            nontrivial.insert(v["program_hash"].as_str().unwrap_or("").to_string());
        }
        iterations += v["iterations"].as_u64().unwrap_or(0);
        paths += v["distinct_paths"].as_u64().unwrap_or(0);
        walks += v["walks"].as_u64().unwrap_or(0);
        walk_steps += v["walk_steps"].as_u64().unwrap_or(0);
        ref_scheds += v["distinct_ref_schedules"].as_u64().unwrap_or(0);
        o2_checked += v["o2_checked"].as_u64().unwrap_or(0);
        if v["too_large"].as_bool().unwrap_or(false) {
            too_large += 1;
        }
        if let Some(st) = v["status"].as_str() {
            *status_counts.entry(st.split('(').next().unwrap_or(st).to_string()).or_insert(0) += 1;
        }
        if let Some(pm) = v["probes"].as_object() {
            for (k, x) in pm {
                *probes.entry(k.clone()).or_insert(0) += x.as_u64().unwrap_or(0);
            }
        }
        if let Some(pm) = v["extra"].as_object() {
            for (k, x) in pm {
                *probes.entry(k.clone()).or_insert(0) += x.as_u64().unwrap_or(0);
            }
        }
        if samples.len() < 4 && !v["sample"].is_null() {
            samples.push(v["sample"].clone());
        }
        digest = digest.wrapping_mul(0x100000001b3)
            ^ crate::rng::hash_str(&format!(
                "{}|{}|{}|{}|{}",
                v["run"], v["program_hash"], v["status"], v["outcomes_hash"], v["violations"].as_array().map(|a| a.len()).unwrap_or(0)
            ));
        if let Some(vs) = v["violations"].as_array() {
            for viol in vs {
                let run = v["run"].as_u64().unwrap_or(0);
                let kid = viol["known"].as_str().map(String::from);
                let is_known = kid
                    .as_ref()
                    .and_then(|id| known.iter().find(|k| &k.id == id && k.status == "open" && k.properties.iter().any(|p| p == check)))
                    .is_some();
                if is_known {
                    let e = known_hits.entry(kid.unwrap()).or_insert((0, run, (*v).clone()));
                    e.0 += 1;
                } else {
                    unknown.push((run, viol.clone(), (*v).clone()));
                }
            }
        }
    }
    {
        let mut tally: BTreeMap<String, u64> = BTreeMap::new();
        for (_, viol, _) in &unknown {
            *tally.entry(format!("{}/{}", viol["kind"].as_str().unwrap_or("?"), viol["known"].as_str().unwrap_or("-"))).or_insert(0) += 1;
        }
        if !tally.is_empty() {
            println!("  unattributed violations by kind/deviation: {:?}", tally);
        }
    }
    let wall = t0.elapsed().as_secs_f64();
    let replay_dir = verif_dir().join("replays");
    let _ = std::fs::create_dir_all(&replay_dir);
    // replay files of earlier runs of this check are stale
    if let Ok(rd) = std::fs::read_dir(&replay_dir) {
        for e in rd.flatten() {
            if e.file_name().to_string_lossy().starts_with(&format!("{}-", check)) {
                let _ = std::fs::remove_file(e.path());
            }
        }
    }
    let mut lines: Vec<String> = Vec::new();
    for (id, (count, run, res)) in &known_hits {
        let k = known.iter().find(|k| &k.id == id).unwrap();
        let path = replay_dir.join(format!("{}-known-{}.json", check, id));
        write_replay(&path, check, tier, seed, *run, res);
        lines.push(format!("KNOWN-FINDING: property={} {} [{}; {} of {} runs; example {}]", check, k.what, id, count, evaluations, path.display()));
    }
    let mut nviol = 0;
    crate::interp::install_quiet_panic_hook();
    for (i, (run, viol, res)) in unknown.iter().enumerate() {
        nviol += 1;
        if i < 5 {
            let path = replay_dir.join(format!("{}-{}-{}.json", check, seed, run));
            // the replay file first; then minimise in a child process (a candidate program may
            // abort or hang the process that runs it) which rewrites the file on success
            write_replay(&path, check, tier, seed, *run, res);
            let kind = viol["kind"].as_str().unwrap_or("").to_string();
            if kind != "abort" && kind != "hang" && std::env::var("VERIF_NO_SHRINK").is_err() {
                let exe = std::env::current_exe().unwrap();
                if let Ok(mut child) = Command::new(exe).args(["shrink", path.to_str().unwrap_or(""), &kind]).stdin(Stdio::null()).stderr(Stdio::null()).spawn() {
                    let t0 = Instant::now();
                    loop {
                        match child.try_wait() {
                            Ok(Some(_)) => break,
                            Ok(None) if t0.elapsed() > Duration::from_secs(180) => {
                                let _ = child.kill();
                                let _ = child.wait();
                                break;
                            }
                            Ok(None) => std::thread::sleep(Duration::from_millis(50)),
                            Err(_) => break,
                        }
                    }
                }
            }
            println!("  violation kind={} run={} : {}", viol["kind"].as_str().unwrap_or("?"), run, viol["detail"].as_str().unwrap_or(""));
            println!("  program: {}", res["program"].as_str().unwrap_or(""));
            lines.push(format!("VIOLATION property={} replay={}", check, path.display()));
        }
    }
    // evidence
    let distinct_nontrivial = nontrivial.len() as u64;
    let evidence = json!({
        "property_id": check,
        "tier": tier,
        "seed": seed,
        "level": def.level,
        "coverage": {
            "evaluations": evaluations,
            "distinct_nontrivial": distinct_nontrivial,
            "rule": rule_text(check),
            "samples": samples,
            "loom_iterations": iterations,
            "distinct_loom_decision_paths": paths,
            "reference_walks": walks,
            "reference_steps": walk_steps,
            "distinct_reference_schedules": ref_scheds,
            "o2_histories_checked": o2_checked,
            "too_large_programs": too_large,
            "loom_status_counts": status_counts,
            "probes_and_fault_counts": probes,
            "runs_per_hour": if wall > 0.0 { (evaluations as f64 / wall * 3600.0) as u64 } else { 0 },
            "seeds_per_hour": if wall > 0.0 { (evaluations as f64 / wall * 3600.0) as u64 } else { 0 },
            "simulated_time": simulated_time_text(check),
            "real_vs_stub": "real: all of loom (src/**), generator coroutines, scoped-tls, std mpsc under loom::sync::mpsc, serde_json checkpoints; simulated: wall clock for max_duration (hook H2), crash = process exit at an op boundary, OS-thread interleaving of concurrent models (turnstile); oracle only: reference machine + RC11 checker",
            "known_findings_matched": known_hits.iter().map(|(k, v)| (k.clone(), v.0)).collect::<BTreeMap<_, _>>(),
            "worker_deaths_confirmed": death_violations.len(),
            "batch_digest": format!("{:016x}", digest),
            "exhaustive": false,
        },
        "assumptions": assumptions(check),
        "wall_s": wall,
        "violations": nviol,
    });
    let evdir = verif_dir().join("evidence");
    let _ = std::fs::create_dir_all(&evdir);
    let evpath = evdir.join(format!("{}.json", check));
    if let Err(e) = std::fs::write(&evpath, serde_json::to_string_pretty(&evidence).unwrap()) {
        harness_errors.push(format!("cannot write evidence: {}", e));
    }
    println!(
        "{}: {} runs ({} distinct non-trivial programs), {} loom iterations, {} reference walks, {} too large, {:.1}s, digest {:016x}",
        check, evaluations, distinct_nontrivial, iterations, walks, too_large, wall, digest
    );
    for l in &lines {
        println!("{}", l);
    }
    if !harness_errors.is_empty() {
        for e in &harness_errors {
            eprintln!("HARNESS-ERROR: {}", e);
        }
        if nviol == 0 {
            return 2;
        }
    }
    if (results.len() as u64) + (died.len() as u64) < runs && nviol == 0 {
        eprintln!("HARNESS-ERROR: only {} of {} runs reported", results.len(), runs);
        return 2;
    }
    if nviol > 0 {
        1
    } else {
        0
    }
}

fn write_replay(path: &std::path::Path, check: &str, tier: &str, seed: u64, run: u64, res: &Value) {
    let v = json!({
        "property": check,
        "check": check,
        "tier": tier,
        "verif_seed": seed,
        "run": run,
        "program_text": res["program"],
        "case": res["case"],
        "violations": res["violations"],
        "minimised": res["minimised"],
    });
    let _ = std::fs::write(path, serde_json::to_string_pretty(&v).unwrap());
}

/// `sim shrink <replay file> <kind>`: minimise the case of a replay file (first unknown violation of
/// that kind) and rewrite the file with a "minimised" section.
pub fn shrink_file(file: &str, kind: &str) -> i32 {
    crate::interp::install_quiet_panic_hook();
    let s = match std::fs::read_to_string(file) {
        Ok(s) => s,
        Err(_) => return 2,
    };
    let mut v: Value = match serde_json::from_str(&s) {
        Ok(v) => v,
        Err(_) => return 2,
    };
    let check = v["check"].as_str().unwrap_or("").to_string();
    let tier = v["tier"].as_str().unwrap_or("quick").to_string();
    let seed = v["verif_seed"].as_u64().unwrap_or(1);
    let run = v["run"].as_u64().unwrap_or(0);
    let viol = match v["violations"].as_array().and_then(|a| a.iter().find(|x| x["kind"].as_str() == Some(kind) && x["known"].is_null())) {
        Some(x) => x.clone(),
        None => return 0,
    };
    let (program, config) = match (
        serde_json::from_value::<crate::dsl::Program>(v["case"]["program"].clone()),
        serde_json::from_value::<crate::dsl::Config>(v["case"]["config"].clone()),
    ) {
        (Ok(p), Ok(c)) => (p, c),
        _ => return 2,
    };
    let case = Case { program, config };
    let sh = crate::shrink::shrink(&check, &tier, &case, seed, run, kind, viol["detail"].as_str().unwrap_or(""), None, 250);
    if sh.ops_after < sh.ops_before {
        let rep = judge(&check, &tier, &sh.case, seed, run);
        v["minimised"] = json!({
            "program_text": sh.case.program.text(),
            "case": {"program": sh.case.program, "config": sh.case.config},
            "violations": rep.violations,
            "ops_before": sh.ops_before,
            "ops_after": sh.ops_after,
            "evaluations": sh.evaluations,
        });
        let _ = std::fs::write(file, serde_json::to_string_pretty(&v).unwrap());
        println!("  minimised run {} from {} to {} ops: {}", run, sh.ops_before, sh.ops_after, sh.case.program.text());
    }
    0
}

/// Re-run a replay file: exit 1 with the VIOLATION line iff the same violation kind reproduces.
pub fn replay(file: &str) -> i32 {
    crate::interp::install_quiet_panic_hook();
    let s = match std::fs::read_to_string(file) {
        Ok(s) => s,
        Err(e) => {
            eprintln!("cannot read {}: {}", file, e);
            return 2;
        }
    };
    let v: Value = match serde_json::from_str(&s) {
        Ok(v) => v,
        Err(e) => {
            eprintln!("bad replay file: {}", e);
            return 2;
        }
    };
    let check = v["check"].as_str().unwrap_or("").to_string();
    let tier = v["tier"].as_str().unwrap_or("quick").to_string();
    let seed = v["verif_seed"].as_u64().unwrap_or(1);
    let run = v["run"].as_u64().unwrap_or(0);
    // the minimised case, when there is one, is what gets replayed
    let src = if v["minimised"].is_object() { &v["minimised"] } else { &v };
    let program: crate::dsl::Program = match serde_json::from_value(src["case"]["program"].clone()) {
        Ok(p) => p,
        Err(e) => {
            eprintln!("bad program in replay file: {}", e);
            return 2;
        }
    };
    let config: crate::dsl::Config = serde_json::from_value(src["case"]["config"].clone()).unwrap_or_default();
    let kinds: Vec<String> = src["violations"]
        .as_array()
        .map(|a| a.iter().filter_map(|x| x["kind"].as_str().map(String::from)).collect())
        .unwrap_or_default();
    println!("replaying {} run {} (seed {}): {}", check, run, seed, program);
    if kinds.iter().any(|k| k == "abort" || k == "hang") {
        // run in a child so that an abort is observable
        let exe = std::env::current_exe().unwrap();
        let st = Command::new(exe).args(["replay-inner", file]).stdout(Stdio::null()).stderr(Stdio::null()).status();
        let died = st.map(|s| !s.success()).unwrap_or(true);
        if died {
            println!("VIOLATION property={} replay={}", check, file);
            return 1;
        }
        return 0;
    }
    let case = Case { program, config };
    let rep = judge(&check, &tier, &case, seed, run);
    for viol in &rep.violations {
        println!("  {}: {}", viol.kind, viol.detail);
    }
    if rep.violations.iter().any(|x| kinds.contains(&x.kind)) {
        println!("VIOLATION property={} replay={}", check, file);
        1
    } else {
        println!("not reproduced");
        0
    }
}

pub fn replay_inner(file: &str) -> i32 {
    crate::interp::install_quiet_panic_hook();
    let s = std::fs::read_to_string(file).unwrap();
    let v: Value = serde_json::from_str(&s).unwrap();
    let check = v["check"].as_str().unwrap_or("").to_string();
    let tier = v["tier"].as_str().unwrap_or("quick").to_string();
    let seed = v["verif_seed"].as_u64().unwrap_or(1);
    let run = v["run"].as_u64().unwrap_or(0);
    let program: crate::dsl::Program = serde_json::from_value(v["case"]["program"].clone()).unwrap();
    let config: crate::dsl::Config = serde_json::from_value(v["case"]["config"].clone()).unwrap_or_default();
    let case = Case { program, config };
    let _ = judge(&check, &tier, &case, seed, run);
    0
}

pub fn judge_file(check: &str, tier: &str, file: &str) -> i32 {
    crate::interp::install_quiet_panic_hook();
    let s = std::fs::read_to_string(file).unwrap();
    let v: Value = serde_json::from_str(&s).unwrap();
    let program: crate::dsl::Program = serde_json::from_value(if v.get("program").is_some() { v["program"].clone() } else { v.clone() }).unwrap();
    let mut config = crate::dsl::Config::default();
    if let Some(c) = v.get("config") {
        config = serde_json::from_value(c.clone()).unwrap();
    }
    println!("program: {}", program);
    let case = Case { program, config };
    let rep = judge(check, tier, &case, 1, 1_000_000);
    println!("{}", serde_json::to_string_pretty(&report_json(0, &case, &rep, true)).unwrap());
    if rep.violations.is_empty() { 0 } else { 1 }
}
