//! `./check selftest`: calibration of the RC11 reference against classic litmus verdicts
//! (both readings), and a determinism test of the batch machinery.

use crate::dsl::*;
use crate::machine::MachineCfg;
use crate::oracle::{outcome_reachable, parse_outcome};

fn ld(a: u8, o: MO) -> Op {
    Op::Load { a, o }
}
fn st(a: u8, v: u64, o: MO) -> Op {
    Op::Store { a, v, o }
}
fn fence(o: MO) -> Op {
    Op::Fence { o }
}

/// T0 spawns the given threads, joins them and reads every location (relaxed).
fn litmus(nloc: usize, threads: Vec<Vec<Op>>) -> Program {
    let mut p = Program { atomics: vec![0; nloc], ..Default::default() };
    let n = threads.len();
    let mut t0 = Vec::new();
    for t in 1..=n {
        t0.push(Op::Spawn { t: t as u8 });
    }
    for t in 1..=n {
        t0.push(Op::Join { t: t as u8 });
    }
    for a in 0..nloc {
        t0.push(ld(a as u8, MO::Rlx));
    }
    p.threads = vec![t0];
    p.threads.extend(threads);
    p
}

struct Case {
    name: &'static str,
    p: Program,
    /// partial outcome: "T1.1=0 T2.1=0" (ops not mentioned are unconstrained)
    outcome: &'static str,
    must: bool,
    may: bool,
}

fn allowed(p: &Program, cfg: &MachineCfg, partial: &str) -> bool {
    // enumerate completions of the partial outcome: unconstrained result-ops may take any value
    // written to their location (or the initial value)
    let mut target = parse_outcome(p, partial);
    let mentioned: Vec<(usize, usize)> = partial
        .split_whitespace()
        .map(|tok| {
            let (lhs, _) = tok.split_once('=').unwrap();
            let (t, pc) = lhs[1..].split_once('.').unwrap();
            (t.parse().unwrap(), pc.parse().unwrap())
        })
        .collect();
    let mut free: Vec<(usize, usize, Vec<u64>)> = Vec::new();
    for (t, ops) in p.threads.iter().enumerate() {
        for (pc, op) in ops.iter().enumerate() {
            if op.has_result() && !mentioned.contains(&(t, pc)) {
                let loc = op.atomic_loc().unwrap();
                let mut vals = vec![p.atomics[loc as usize]];
                for o in p.threads.iter().flatten() {
                    match o {
                        Op::Store { a, v, .. } | Op::Swap { a, v, .. } if *a == loc => vals.push(*v),
                        Op::FetchAdd { a, .. } if *a == loc => {
                            // sums of bit operands on top of constants: enumerate small sums
                            for base in vals.clone() {
                                for add in 1..4u64 {
                                    vals.push(base + add);
                                }
                            }
                        }
                        _ => {}
                    }
                }
                vals.sort();
                vals.dedup();
                free.push((t, pc, vals));
            }
        }
    }
    fn rec(p: &Program, cfg: &MachineCfg, target: &mut Vec<Vec<Option<u64>>>, free: &[(usize, usize, Vec<u64>)], i: usize) -> bool {
        if i == free.len() {
            return outcome_reachable(p, cfg, target, 5_000_000) == Some(true);
        }
        let (t, pc, vals) = &free[i];
        for &v in vals {
            target[*t][*pc] = Some(v);
            if rec(p, cfg, target, free, i + 1) {
                return true;
            }
        }
        false
    }
    rec(p, cfg, &mut target, &free, 0)
}

pub fn selftest() -> i32 {
    use MO::*;
    let cases = vec![
        Case { name: "SB relaxed: (0,0)", p: litmus(2, vec![vec![st(0, 16, Rlx), ld(1, Rlx)], vec![st(1, 32, Rlx), ld(0, Rlx)]]), outcome: "T1.1=0 T2.1=0", must: true, may: true },
        Case { name: "SB SeqCst accesses: (0,0)", p: litmus(2, vec![vec![st(0, 16, Sc), ld(1, Sc)], vec![st(1, 32, Sc), ld(0, Sc)]]), outcome: "T1.1=0 T2.1=0", must: false, may: true },
        Case { name: "SB + SeqCst fences: (0,0)", p: litmus(2, vec![vec![st(0, 16, Rlx), fence(Sc), ld(1, Rlx)], vec![st(1, 32, Rlx), fence(Sc), ld(0, Rlx)]]), outcome: "T1.2=0 T2.2=0", must: false, may: false },
        Case { name: "SB + AcqRel fences: (0,0)", p: litmus(2, vec![vec![st(0, 16, Rlx), fence(AcqRel), ld(1, Rlx)], vec![st(1, 32, Rlx), fence(AcqRel), ld(0, Rlx)]]), outcome: "T1.2=0 T2.2=0", must: true, may: true },
        Case { name: "MP relaxed: (1,0)", p: litmus(2, vec![vec![st(0, 16, Rlx), st(1, 32, Rlx)], vec![ld(1, Rlx), ld(0, Rlx)]]), outcome: "T2.0=32 T2.1=0", must: true, may: true },
        Case { name: "MP release/acquire: (1,0)", p: litmus(2, vec![vec![st(0, 16, Rlx), st(1, 32, Rel)], vec![ld(1, Acq), ld(0, Rlx)]]), outcome: "T2.0=32 T2.1=0", must: false, may: false },
        Case { name: "MP release / relaxed load: (1,0)", p: litmus(2, vec![vec![st(0, 16, Rlx), st(1, 32, Rel)], vec![ld(1, Rlx), ld(0, Rlx)]]), outcome: "T2.0=32 T2.1=0", must: true, may: true },
        Case { name: "MP with fences: (1,0)", p: litmus(2, vec![vec![st(0, 16, Rlx), fence(Rel), st(1, 32, Rlx)], vec![ld(1, Rlx), fence(Acq), ld(0, Rlx)]]), outcome: "T2.0=32 T2.2=0", must: false, may: false },
        Case { name: "release sequence, later same-thread relaxed store (C++11 vs C++20)", p: litmus(2, vec![vec![st(0, 16, Rlx), st(1, 32, Rel), st(1, 48, Rlx)], vec![ld(1, Acq), ld(0, Rlx)]]), outcome: "T2.0=48 T2.1=0", must: false, may: true },
        Case { name: "release sequence through an RMW: (33,0)", p: litmus(2, vec![vec![st(0, 16, Rlx), st(1, 32, Rel)], vec![Op::FetchAdd { a: 1, v: 1, o: Rlx }], vec![ld(1, Acq), ld(0, Rlx)]]), outcome: "T2.0=32 T3.0=33 T3.1=0", must: false, may: false },
        Case { name: "LB: (1,1) (no load buffering in the fragment)", p: litmus(2, vec![vec![ld(0, Rlx), st(1, 32, Rlx)], vec![ld(1, Rlx), st(0, 16, Rlx)]]), outcome: "T1.0=16 T2.0=32", must: false, may: false },
        Case { name: "IRIW acquire/release: readers disagree", p: litmus(2, vec![vec![st(0, 16, Rel)], vec![st(1, 32, Rel)], vec![ld(0, Acq), ld(1, Acq)], vec![ld(1, Acq), ld(0, Acq)]]), outcome: "T3.0=16 T3.1=0 T4.0=32 T4.1=0", must: true, may: true },
        Case { name: "IRIW SeqCst accesses: readers disagree", p: litmus(2, vec![vec![st(0, 16, Sc)], vec![st(1, 32, Sc)], vec![ld(0, Sc), ld(1, Sc)], vec![ld(1, Sc), ld(0, Sc)]]), outcome: "T3.0=16 T3.1=0 T4.0=32 T4.1=0", must: false, may: true },
        Case { name: "IRIW + SeqCst fences: readers disagree", p: litmus(2, vec![vec![st(0, 16, Rlx)], vec![st(1, 32, Rlx)], vec![ld(0, Rlx), fence(Sc), ld(1, Rlx)], vec![ld(1, Rlx), fence(Sc), ld(0, Rlx)]]), outcome: "T3.0=16 T3.2=0 T4.0=32 T4.2=0", must: false, may: false },
        Case { name: "CoRR: two readers see the two stores in opposite orders", p: litmus(1, vec![vec![st(0, 16, Rlx)], vec![st(0, 32, Rlx)], vec![ld(0, Rlx), ld(0, Rlx)], vec![ld(0, Rlx), ld(0, Rlx)]]), outcome: "T3.0=16 T3.1=32 T4.0=32 T4.1=16", must: false, may: false },
        Case { name: "CoRR: one reader, new then old", p: litmus(1, vec![vec![st(0, 16, Rlx)], vec![ld(0, Rlx), ld(0, Rlx)]]), outcome: "T2.0=16 T2.1=0", must: false, may: false },
        Case { name: "2+2W relaxed: both locations end with the first store", p: litmus(2, vec![vec![st(0, 16, Rlx), st(1, 32, Rlx)], vec![st(1, 48, Rlx), st(0, 64, Rlx)]]), outcome: "T0.4=16 T0.5=48", must: true, may: true },
        Case { name: "RMW atomicity: two fetch_add read the same value", p: litmus(1, vec![vec![Op::FetchAdd { a: 0, v: 1, o: Rlx }], vec![Op::FetchAdd { a: 0, v: 2, o: Rlx }]]), outcome: "T1.0=0 T2.0=0", must: false, may: false },
        Case { name: "RMW vs store: swap reads 0, store lands in between (K3 shape)", p: litmus(1, vec![vec![st(0, 16, Rlx)], vec![Op::Swap { a: 0, v: 32, o: Rlx }]]), outcome: "T0.4=32 T2.0=0", must: false, may: false },
        Case { name: "WRC: (1,1,0) forbidden by coherence + hb", p: litmus(2, vec![vec![st(0, 16, Rlx)], vec![ld(0, Acq), st(1, 32, Rel)], vec![ld(1, Acq), ld(0, Rlx)]]), outcome: "T2.0=16 T3.0=32 T3.1=0", must: false, may: false },
        Case { name: "MP through a third thread's relaxed read + acquire fence (K4 shape): (1,1,0)", p: litmus(3, vec![vec![st(1, 16, Rlx), st(0, 32, Rel)], vec![ld(0, Rlx), st(2, 48, Rel)], vec![ld(2, Acq), fence(Acq), ld(1, Rlx)]]), outcome: "T2.0=32 T3.0=48 T3.2=0", must: true, may: true },
        Case { name: "stale SeqCst read without hb (K8 shape)", p: litmus(2, vec![vec![st(1, 16, Sc), st(1, 32, Sc), st(0, 48, Rlx)], vec![ld(0, Rlx), ld(1, Sc)]]), outcome: "T2.0=48 T2.1=16", must: true, may: true },
        Case { name: "final value is the mo-last store (CoWR after join)", p: litmus(1, vec![vec![st(0, 16, Rlx), st(0, 32, Rlx)]]), outcome: "T0.2=16", must: false, may: false },
    ];
    let mut must = MachineCfg::must();
    must.switch_only_at_branch_points = false;
    let mut may = MachineCfg::may();
    may.switch_only_at_branch_points = false;
    let mut bad = 0;
    println!("RC11 calibration ({} litmus shapes, both readings):", cases.len());
    for c in &cases {
        let a_must = allowed(&c.p, &must, c.outcome);
        let a_may = allowed(&c.p, &may, c.outcome);
        let ok = a_must == c.must && a_may == c.may;
        if !ok {
            bad += 1;
        }
        println!("  [{}] {:<75} MUST {} (expected {})  MAY {} (expected {})", if ok { "ok" } else { "XX" }, c.name, a_must, c.must, a_may, c.may);
    }
    // the envelope: everything MUST allows, MAY allows
    for c in &cases {
        if c.must && !c.may {
            bad += 1;
            println!("  [XX] envelope broken in the table itself: {}", c.name);
        }
    }
    if bad > 0 {
        println!("SELFTEST FAILED: {} calibration entries disagree", bad);
        return 1;
    }
    // determinism of the batch machinery: same seed, different worker counts, two processes
    let exe = std::env::current_exe().unwrap();
    // (C07 contains the witness of K7, which leaves its worker process dirty: the worker retires
    // and the result must still not depend on how runs are spread over processes)
    for (check, runs) in [("C03", "240"), ("C07", "400"), ("C06", "100"), ("C10", "400"), ("C18", "120")] {
        let mut digests = Vec::new();
        for workers in ["1", "16", "5"] {
            let out = std::process::Command::new(&exe)
                .args(["check", check, "quick"])
                .env("VERIF_RUNS", runs)
                .env("VERIF_WORKERS", workers)
                .env("VERIF_NO_SHRINK", "1")
                .env("VERIF_DIR", std::env::temp_dir().join(format!("verif-selftest-{}", std::process::id())))
                .output()
                .unwrap();
            let s = String::from_utf8_lossy(&out.stdout).to_string();
            let d = s.lines().find_map(|l| l.split("digest ").nth(1).map(|x| x.trim().to_string()));
            println!("  determinism: {} x{} with {} workers -> digest {:?}", check, runs, workers, d);
            digests.push(d);
        }
        let _ = std::fs::remove_dir_all(std::env::temp_dir().join(format!("verif-selftest-{}", std::process::id())));
        if digests.iter().any(|d| d.is_none()) || digests.windows(2).any(|w| w[0] != w[1]) {
            println!("SELFTEST FAILED: batch digests of {} differ", check);
            return 1;
        }
    }
    println!("selftest ok");
    0
}
