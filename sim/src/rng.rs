//! Deterministic PRNG: SplitMix64-seeded xoshiro256**. No external dependency so that the
//! stream is stable across toolchains. Streams are derived from (seed, check, run, stream-name)
//! so that run `i` of a check does not depend on how many workers execute the batch.

#[derive(Clone, Debug)]
pub struct Rng {
    s: [u64; 4],
}

fn splitmix(x: &mut u64) -> u64 {
    *x = x.wrapping_add(0x9E3779B97F4A7C15);
    let mut z = *x;
    z = (z ^ (z >> 30)).wrapping_mul(0xBF58476D1CE4E5B9);
    z = (z ^ (z >> 27)).wrapping_mul(0x94D049BB133111EB);
    z ^ (z >> 31)
}

pub fn hash_str(s: &str) -> u64 {
    // FNV-1a 64
    let mut h: u64 = 0xcbf29ce484222325;
    for b in s.bytes() {
        h ^= b as u64;
        h = h.wrapping_mul(0x100000001b3);
    }
    h
}

pub fn hash_bytes(bs: &[u8]) -> u64 {
    let mut h: u64 = 0xcbf29ce484222325;
    for &b in bs {
        h ^= b as u64;
        h = h.wrapping_mul(0x100000001b3);
    }
    h
}

impl Rng {
    pub fn new(seed: u64) -> Rng {
        let mut x = seed;
        let s = [
            splitmix(&mut x),
            splitmix(&mut x),
            splitmix(&mut x),
            splitmix(&mut x),
        ];
        Rng { s }
    }

    /// Derive an independent stream.
    pub fn derive(seed: u64, check: &str, run: u64, stream: &str) -> Rng {
        let mut x = seed ^ 0xA5A5_5A5A_DEAD_BEEF;
        let a = splitmix(&mut x);
        let mut y = a ^ hash_str(check);
        let b = splitmix(&mut y);
        let mut z = b ^ run.wrapping_mul(0x9E3779B97F4A7C15);
        let c = splitmix(&mut z);
        let mut w = c ^ hash_str(stream);
        Rng::new(splitmix(&mut w))
    }

    pub fn next_u64(&mut self) -> u64 {
        let r = self.s[1].wrapping_mul(5).rotate_left(7).wrapping_mul(9);
        let t = self.s[1] << 17;
        self.s[2] ^= self.s[0];
        self.s[3] ^= self.s[1];
        self.s[1] ^= self.s[2];
        self.s[0] ^= self.s[3];
        self.s[2] ^= t;
        self.s[3] = self.s[3].rotate_left(45);
        r
    }

    /// Uniform in 0..n (n > 0).
    pub fn below(&mut self, n: usize) -> usize {
        debug_assert!(n > 0);
        (self.next_u64() % (n as u64)) as usize
    }

    /// Uniform in lo..=hi.
    pub fn range(&mut self, lo: usize, hi: usize) -> usize {
        lo + self.below(hi - lo + 1)
    }

    /// true with probability num/den.
    pub fn chance(&mut self, num: u32, den: u32) -> bool {
        (self.next_u64() % den as u64) < num as u64
    }

    pub fn pick<'a, T>(&mut self, xs: &'a [T]) -> &'a T {
        &xs[self.below(xs.len())]
    }

    pub fn shuffle<T>(&mut self, xs: &mut [T]) {
        for i in (1..xs.len()).rev() {
            let j = self.below(i + 1);
            xs.swap(i, j);
        }
    }
}
