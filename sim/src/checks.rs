//! Per-property check definitions: which family is generated, which oracles judge it, how many
//! runs each tier makes.

use crate::cases::*;
use crate::dsl::*;
use crate::gen::*;
use crate::interp::FailClass;
use crate::machine::MachineCfg;
use crate::rng::Rng;

pub struct CheckDef {
    pub id: &'static str,
    pub quick_runs: u64,
    pub thorough_runs: u64,
    pub level: &'static str,
    pub title: &'static str,
}

pub const CHECKS: &[CheckDef] = &[
    CheckDef { id: "C02", quick_runs: 1600, thorough_runs: 60_000, level: "exploration", title: "every RC11-allowed outcome without load buffering is explored" },
    CheckDef { id: "C03", quick_runs: 2000, thorough_runs: 80_000, level: "exploration", title: "every explored execution is RC11-consistent" },
];

pub fn check_def(id: &str) -> Option<&'static CheckDef> {
    CHECKS.iter().find(|c| c.id == id)
}

pub struct Case {
    pub program: Program,
    pub config: Config,
}

/// Generate the case for run `run` of `check` (a pure function of the arguments).
pub fn generate(check: &str, tier: &str, seed: u64, run: u64) -> Case {
    let mut rng = Rng::derive(seed, check, run, "prog");
    let thorough = tier == "thorough";
    match check {
        "C02" | "C03" => {
            let program = if rng.chance(2, 5) {
                gen_litmus_template(&mut rng)
            } else {
                let big = thorough && rng.chance(1, 3);
                let pr = litmus_profile(&mut rng, big);
                gen_litmus(&mut rng, &pr)
            };
            let mut config = Config::default();
            config.iter_cap = if thorough { 60_000 } else { 12_000 };
            Case { program, config }
        }
        _ => panic!("unknown check {}", check),
    }
}

/// Judge a case (pure function of its arguments and of the loom tree).
pub fn judge(check: &str, tier: &str, case: &Case, seed: u64, run: u64) -> CaseReport {
    let mut rng = Rng::derive(seed, check, run, "walk");
    let thorough = tier == "thorough";
    let mut opts = CaseOpts::default();
    if thorough {
        opts.walks0 = 128;
        opts.walk_cap = 4096;
    }
    match check {
        "C02" => {
            opts.o1 = Some(MachineCfg::must());
        }
        "C03" => {
            opts.o2 = true;
        }
        _ => panic!("unknown check {}", check),
    }
    let _ = FailClass::Deadlock;
    run_case(&case.program, &case.config, &opts, &mut rng)
}

/// Known-finding attribution for a worker death (abort / hang) on this case, if any.
pub fn death_known(_check: &str, _case: &Case) -> Option<String> {
    None
}

pub fn rule_text(check: &str) -> String {
    match check {
        "C02" | "C03" => "seeded swarm generation of atomics-only litmus programs (T0 spawns 2-3 threads of 1-4 loads/stores/RMWs/CAS/fences over 1-3 locations with a per-run ordering palette, joins them and reads every location; every stored value is unique); a program counts as non-trivial if it has >= 2 threads and two ops of different threads touch the same object, one of them not a pure read; distinct = distinct canonical program text (hash)".into(),
        _ => "seeded swarm generation; non-trivial = >= 2 threads with a cross-thread conflicting pair on a shared object; distinct by canonical program text".into(),
    }
}

pub fn simulated_time_text(check: &str) -> String {
    match check {
        "C19" => "see probes (simulated clock advanced per iteration)".into(),
        _ => "not applicable: nothing in this property reads a clock".into(),
    }
}

pub fn assumptions(check: &str) -> Vec<String> {
    let mut v = vec![
        "sampling, not enumeration: a clean batch bounds nothing beyond the programs, schedules and faults drawn".to_string(),
        "the reference machine and the RC11 axiom checker (sim/src/machine.rs, graph.rs) are trusted; they are calibrated by the litmus self-test".to_string(),
        "return order of the interpreter's events equals effect order inside loom (loom is serial; switches only at branch points preceding the effect)".to_string(),
    ];
    if matches!(check, "C02" | "C03" | "C04" | "C18") {
        v.push("MUST reading = RC11 with strict SeqCst and C++11 release sequences; MAY reading = SeqCst accesses as acquire/release, C++20 release sequences".to_string());
    }
    v
}
