//! Per-property check definitions: which family is generated, which oracles judge it, how many
//! runs each tier makes.

use crate::cases::*;
use crate::dsl::*;
use crate::gen::*;
use crate::interp::FailClass;
use crate::machine::MachineCfg;
use crate::rng::Rng;

pub struct CheckDef {
    pub id: &'static str,
    pub quick_runs: u64,
    pub thorough_runs: u64,
    pub level: &'static str,
    pub title: &'static str,
}

pub const CHECKS: &[CheckDef] = &[
    CheckDef { id: "C01", quick_runs: 12000, thorough_runs: 25000, level: "exploration", title: "every interleaving outcome is explored" },
    CheckDef { id: "C02", quick_runs: 3000, thorough_runs: 20000, level: "exploration", title: "every RC11-allowed outcome without load buffering is explored" },
    CheckDef { id: "C03", quick_runs: 3000, thorough_runs: 20000, level: "exploration", title: "every explored execution is RC11-consistent" },
    CheckDef { id: "C04", quick_runs: 6000, thorough_runs: 30000, level: "exploration", title: "data races are reported exactly" },
    CheckDef { id: "C05", quick_runs: 20000, thorough_runs: 200000, level: "exploration", title: "deadlocks are reported exactly" },
    CheckDef { id: "C06", quick_runs: 1200, thorough_runs: 10000, level: "fault_enumeration", title: "a failure in any execution fails the model, and only then" },
    CheckDef { id: "C07", quick_runs: 10000, thorough_runs: 40000, level: "exploration", title: "Mutex/RwLock exclusion, blocking, hand-over" },
    CheckDef { id: "C08", quick_runs: 15000, thorough_runs: 100000, level: "exploration", title: "waiting primitives wake exactly on notification" },
    CheckDef { id: "C09", quick_runs: 15000, thorough_runs: 150000, level: "exploration", title: "mpsc: once, in order, with ordering" },
    CheckDef { id: "C10", quick_runs: 6000, thorough_runs: 60000, level: "exploration", title: "leaks reported exactly" },
    CheckDef { id: "C11", quick_runs: 6000, thorough_runs: 40000, level: "exploration", title: "loom::sync::Arc behaves like std::sync::Arc" },
    CheckDef { id: "C13", quick_runs: 700, thorough_runs: 2500, level: "fault_enumeration", title: "deterministic and resumable exploration" },
    CheckDef { id: "C14", quick_runs: 5000, thorough_runs: 50000, level: "exploration", title: "exploration terminates and never repeats" },
    CheckDef { id: "C16", quick_runs: 1500, thorough_runs: 10000, level: "exploration", title: "iterations and models are isolated" },
    CheckDef { id: "C17", quick_runs: 5000, thorough_runs: 50000, level: "exploration", title: "thread_local! / lazy_static! semantics" },
    CheckDef { id: "C18", quick_runs: 3000, thorough_runs: 15000, level: "exploration", title: "yielding spin loops progress and lose no exit outcome" },
    CheckDef { id: "C20", quick_runs: 1500, thorough_runs: 6000, level: "exploration", title: "block_on / AtomicWaker never lose a wake-up" },
    CheckDef { id: "C19", quick_runs: 1000, thorough_runs: 8000, level: "exploration", title: "exploration controls and limits" },
    CheckDef { id: "C15", quick_runs: 1500, thorough_runs: 12000, level: "exploration", title: "preemption bound is sound and monotone" },
];

pub fn check_def(id: &str) -> Option<&'static CheckDef> {
    CHECKS.iter().find(|c| c.id == id)
}

pub struct Case {
    pub program: Program,
    pub config: Config,
}

/// Generate the case for run `run` of `check` (a pure function of the arguments).
pub fn generate(check: &str, tier: &str, seed: u64, run: u64) -> Case {
    let mut rng = Rng::derive(seed, check, run, "prog");
    let thorough = tier == "thorough";
    let mut config = Config::default();
    config.iter_cap = if thorough { 60_000 } else { 12_000 };
    let ws = witnesses(check);
    if (run as usize) < ws.len() {
        return Case { program: ws[run as usize].1.clone(), config };
    }
    let program = match check {
        "C08" if run % 6 == 3 => crate::gen::gen_wait_loops(&mut rng),
        "C08" if run % 12 == 4 => crate::gen::gen_park_mp(&mut rng),
        "C16" if run % 8 == 4 => crate::gen::gen_park_mp(&mut rng),
        "C07" if run % 12 == 4 => crate::gen::gen_rw_overlap(&mut rng),
        "C01" if run % 24 == 4 => crate::gen::gen_rw_overlap(&mut rng),
        "C05" if run % 12 == 3 => crate::gen::gen_wait_loops(&mut rng),
        "C05" if run % 24 == 7 => crate::gen::gen_yield_after_lock(&mut rng),
        "C07" if run % 24 == 7 => crate::gen::gen_yield_after_lock(&mut rng),
        "C03" if run % 12 == 5 => crate::gen::gen_many_stores_mp(&mut rng, false),
        "C04" if run % 12 == 5 => crate::gen::gen_many_stores_mp(&mut rng, true),
        "C04" if run % 12 == 8 => crate::gen::gen_trylock_no_handover(&mut rng),
        "C07" if run % 24 == 8 => crate::gen::gen_trylock_no_handover(&mut rng),
        "C07" if run % 12 == 9 => crate::gen::gen_try_decidable(&mut rng),
        "C01" if run % 12 == 9 => crate::gen::gen_try_decidable(&mut rng),
        "C11" if run % 10 == 3 => crate::gen::gen_arc_drop_order(&mut rng),
        "C04" if run % 12 == 9 => crate::gen::gen_arc_drop_order(&mut rng),
        "C04" if run % 12 == 10 => crate::gen::gen_fence_multi(&mut rng, true),
        "C03" if run % 24 == 10 => crate::gen::gen_fence_multi(&mut rng, false),
        "C07" if run % 12 == 10 => crate::gen::gen_lock_convoy(&mut rng),
        "C01" if run % 24 == 10 => crate::gen::gen_lock_convoy(&mut rng),
        "C05" if run % 96 == 10 => crate::gen::gen_lock_convoy(&mut rng),
        "C02" | "C03" => gen_litmus_any(&mut rng, thorough),
        "C01" => {
            if rng.chance(1, 4) {
                // atomics with interleaving semantics
                gen_litmus_any(&mut rng, false)
            } else {
                let mut pr = sync_profile(&mut rng, "");
                pr.palette_sc_only = rng.chance(1, 2);
                gen_sync(&mut rng, &pr)
            }
        }
        "C04" => gen_race(&mut rng),
        "C05" => {
            let pr = sync_profile(&mut rng, "deadlock");
            gen_sync(&mut rng, &pr)
        }
        "C07" => {
            let pr = sync_profile(&mut rng, "lock");
            gen_sync(&mut rng, &pr)
        }
        "C08" => {
            let pr = sync_profile(&mut rng, "wait");
            gen_sync(&mut rng, &pr)
        }
        "C09" if run % 10 == 7 => crate::gen::gen_chan_mp(&mut rng),
        "C10" if run % 10 == 7 => crate::gen::gen_chan_mp(&mut rng),
        "C09" => {
            let pr = sync_profile(&mut rng, "chan");
            gen_sync(&mut rng, &pr)
        }
        "C06" => {
            config.iter_cap = 3000;
            match rng.below(8) {
                7 => gen_tls_lazy(&mut rng),
                0 => gen_litmus_any(&mut rng, false),
                1 => {
                    let pr = sync_profile(&mut rng, "lock");
                    gen_sync(&mut rng, &pr)
                }
                2 => {
                    let pr = sync_profile(&mut rng, "wait");
                    gen_sync(&mut rng, &pr)
                }
                3 => gen_arc(&mut rng, false),
                4 => gen_arc(&mut rng, true),
                5 => gen_race(&mut rng),
                _ => {
                    let pr = sync_profile(&mut rng, "");
                    gen_sync(&mut rng, &pr)
                }
            }
        }
        "C16" | "C19" => {
            config.iter_cap = 3000;
            // C19 compares result sets with the unrestricted run (see the note at C15)
            let plain = check == "C19";
            match rng.below(5) {
                0 | 1 => gen_litmus_any(&mut rng, false),
                2 => {
                    let mut pr = sync_profile(&mut rng, "wait");
                    if plain {
                        pr.try_ops = false;
                        pr.yields = false;
                    }
                    gen_sync(&mut rng, &pr)
                }
                3 if check == "C16" => gen_arc(&mut rng, false),
                _ => {
                    let mut pr = sync_profile(&mut rng, "");
                    if plain {
                        pr.try_ops = false;
                        pr.yields = false;
                    }
                    gen_sync(&mut rng, &pr)
                }
            }
        }
        "C13" if run % 6 == 2 => {
            // spurious-wake-up branches (Notify) and predicate loops in the checkpoint exercise
            config.iter_cap = 4000;
            crate::gen::gen_wait_loops(&mut rng)
        }
        "C15" if run % 5 == 4 => {
            // programs that yield: only "at most n preemptions per execution" is judged for them
            // (meta.rs), their result sets are no yardstick (loom's yield scheduling)
            config.iter_cap = 4000;
            match rng.below(3) {
                0 => gen_await(&mut rng, false),
                1 => crate::gen::gen_yield_after_lock(&mut rng),
                _ => {
                    let mut pr = sync_profile(&mut rng, "");
                    pr.try_ops = false;
                    pr.yields = true;
                    gen_sync(&mut rng, &pr)
                }
            }
        }
        "C13" | "C15" => {
            config.iter_cap = 4000;
            if check == "C13" && run % 3 == 1 {
                // the checkpoint exercise under a preemption bound (the bound's bookkeeping is
                // part of what a checkpoint has to restore)
                config.preemption_bound = Some(1 + (run % 2) as usize);
            }
            // C15 compares result SETS of bounded and unbounded runs: the unbounded set is only a
            // sound yardstick where it is complete, i.e. outside the domain of finding K6
            // (try-acquires) and of loom's special yield scheduling
            let plain = check == "C15";
            match rng.below(6) {
                0 | 1 => gen_litmus_any(&mut rng, false),
                2 => {
                    let mut pr = sync_profile(&mut rng, "wait");
                    if plain {
                        pr.try_ops = false;
                        pr.yields = false;
                    }
                    gen_sync(&mut rng, &pr)
                }
                3 => {
                    let mut pr = sync_profile(&mut rng, "lock");
                    if plain {
                        pr.try_ops = false;
                        pr.yields = false;
                    }
                    gen_sync(&mut rng, &pr)
                }
                4 if check == "C13" => gen_many_stores(&mut rng),
                _ => {
                    let mut pr = sync_profile(&mut rng, "");
                    if plain {
                        pr.try_ops = false;
                        pr.yields = false;
                    }
                    gen_sync(&mut rng, &pr)
                }
            }
        }
        "C17" => gen_tls_lazy(&mut rng),
        "C20" => {
            // waker clones are Arc operations: explorations are long; the per-iteration oracles
            // (validity, justified failure) also judge runs that hit the cap
            config.iter_cap = if thorough { 40_000 } else { 3000 };
            gen_future(&mut rng)
        }
        "C18" => {
            let never = rng.chance(1, 6);
            if never {
                config.max_branches = 60;
            }
            gen_await(&mut rng, never)
        }
        "C10" => gen_arc(&mut rng, true),
        "C11" => {
            config.iter_cap = if thorough { 30_000 } else { 4000 };
            gen_arc(&mut rng, false)
        }
        "C14" => match rng.below(4) {
            3 => gen_many_stores(&mut rng),
            0 => gen_litmus_any(&mut rng, false),
            1 => {
                let pr = sync_profile(&mut rng, "");
                gen_sync(&mut rng, &pr)
            }
            _ => {
                let pr = sync_profile(&mut rng, "wait");
                gen_sync(&mut rng, &pr)
            }
        },
        _ => panic!("unknown check {}", check),
    };
    let mut program = program;
    // some messages report it on their own channel when they are dropped without having been
    // received (own random stream)
    if matches!(check, "C09" | "C10" | "C06") {
        let mut mrng = Rng::derive(seed, check, run, "msgdrop");
        for th in program.threads.iter_mut() {
            for op in th.iter_mut() {
                if let Op::Send { c, v } = *op {
                    if mrng.chance(1, 5) {
                        *op = Op::SendBomb { c, v };
                    }
                }
            }
        }
    }
    // FAULT: caught panics (own random stream: the programs themselves stay as they are)
    if matches!(check, "C01" | "C04" | "C05" | "C07" | "C08" | "C09" | "C10" | "C06" | "C16") {
        let mut frng = Rng::derive(seed, check, run, "caught");
        if frng.chance(1, 5) {
            crate::gen::inject_caught(&mut program, &mut frng);
        }
    }
    Case { program, config }
}

pub fn gen_litmus_any(rng: &mut Rng, thorough: bool) -> Program {
    if rng.chance(2, 5) {
        gen_litmus_template(rng)
    } else {
        let big = thorough && rng.chance(1, 3);
        let pr = litmus_profile(rng, big);
        gen_litmus(rng, &pr)
    }
}

/// Judge a case (pure function of its arguments and of the loom tree).
pub fn judge(check: &str, tier: &str, case: &Case, seed: u64, run: u64) -> CaseReport {
    crate::interp::CAUGHT_FIRED.with(|c| c.set(0));
    crate::interp::PANIC_IN_CELL_FIRED.with(|c| c.set(0));
    crate::oracle::REPLAY_INCONCLUSIVE.with(|c| c.set(0));
    let mut rep = judge_inner(check, tier, case, seed, run);
    let inconclusive = crate::oracle::REPLAY_INCONCLUSIVE.with(|c| c.get());
    if inconclusive > 0 {
        rep.extra.insert("replays_out_of_search_budget".into(), inconclusive);
    }
    let in_cell = crate::interp::PANIC_IN_CELL_FIRED.with(|c| c.get());
    if in_cell > 0 {
        rep.extra.insert("fault_panic_inside_cell_access_fired".into(), in_cell);
    }
    let placed = case.program.threads.iter().flatten().filter(|o| o.is_caught()).count() as u64;
    if placed > 0 {
        rep.extra.insert("fault_caught_panic_configured".into(), placed);
        rep.extra.insert("fault_caught_panic_fired".into(), crate::interp::CAUGHT_FIRED.with(|c| c.get()));
    }
    rep
}

fn judge_inner(check: &str, tier: &str, case: &Case, seed: u64, run: u64) -> CaseReport {
    let mut rng = Rng::derive(seed, check, run, "walk");
    let thorough = tier == "thorough";
    let mut opts = CaseOpts::default();
    if thorough {
        opts.walks0 = 128;
        opts.walk_cap = 4096;
    }
    let leak = FailClass::Leak(String::new());
    if check == "C13" {
        let r = crate::meta::run_c13_case(&case.program, &case.config, &mut rng, if thorough { 200 } else { 60 }, thorough);
        crate::meta::cleanup_scratch();
        return r;
    }
    if check == "C16" {
        let r = crate::meta::run_c16_case(&case.program, &case.config, &mut rng);
        crate::meta::cleanup_scratch();
        return r;
    }
    if check == "C19" {
        return crate::meta::run_c19_case(&case.program, &case.config, &mut rng);
    }
    if check == "C15" {
        return crate::meta::run_c15_case(&case.program, &case.config);
    }
    if check == "C06" {
        return crate::fault::run_c06_case(&case.program, &case.config, if thorough { 600 } else { 150 });
    }
    match check {
        "C01" => {
            let mut m = MachineCfg::must();
            m.sc_atomics = true;
            opts.o1 = Some(m);
            opts.o3_must_classes = vec![FailClass::Deadlock];
            opts.internal_is_violation = false;
            opts.ignore_classes = vec![FailClass::Race, leak, FailClass::Deadlock, FailClass::LoomInternal];
        }
        "C02" => {
            opts.o1 = Some(MachineCfg::must());
        }
        "C03" => {
            opts.o2 = true;
        }
        "C04" => {
            opts.o1 = None;
            opts.o3_must_classes = vec![FailClass::Race];
            opts.o3_may_classes = vec![FailClass::Race];
            opts.ignore_classes = vec![leak];
        }
        "C05" => {
            opts.o3_must_classes = vec![FailClass::Deadlock];
            opts.o3_may_classes = vec![FailClass::Deadlock];
            opts.ignore_classes = vec![leak, FailClass::Race];
        }
        "C07" => {
            opts.o1 = Some(MachineCfg::must());
            opts.o2 = true;
            opts.o3_must_classes = vec![FailClass::Race];
            opts.o3_may_classes = vec![FailClass::Race, FailClass::Deadlock];
            opts.ignore_classes = vec![leak];
        }
        "C08" => {
            opts.o1 = Some(MachineCfg::must());
            opts.o2 = true;
            opts.o3_must_classes = vec![FailClass::Race, FailClass::Deadlock];
            opts.o3_may_classes = vec![FailClass::Race, FailClass::Deadlock];
            opts.ignore_classes = vec![leak];
        }
        "C09" => {
            opts.o1 = Some(MachineCfg::must());
            opts.o2 = true;
            opts.o3_must_classes = vec![FailClass::Race, FailClass::Deadlock, leak.clone()];
            opts.o3_may_classes = vec![FailClass::Race, FailClass::Deadlock, leak];
        }
        "C10" => {
            opts.o3_must_classes = vec![leak.clone()];
            opts.o3_may_classes = vec![leak];
            opts.o2 = true;
            opts.ignore_classes = vec![FailClass::Race, FailClass::Deadlock];
        }
        "C11" => {
            opts.o1 = Some(MachineCfg::must());
            opts.o2 = true;
            opts.o3_must_classes = vec![FailClass::Race];
            opts.o3_may_classes = vec![FailClass::Race, leak];
        }
        "C17" => {
            // every third program runs with a scheduling point inside the lazy initialisers
            // (racing initialisations); completeness is then not demanded (the yield has loom's
            // special scheduling semantics), validity and life cycle are
            let yields = run % 3 == 0;
            crate::interp::set_lazy_init_yields(yields);
            opts.o2 = true;
            opts.tls_lazy = true;
            opts.o3_must_classes = vec![FailClass::Race];
            opts.o3_may_classes = vec![FailClass::Race];
            if !yields {
                opts.o1 = Some(MachineCfg::must());
            }
        }
        "C20" => {
            opts.o1 = Some(MachineCfg::must());
            opts.o2 = true;
            opts.o3_must_classes = vec![FailClass::Deadlock];
            opts.o3_may_classes = vec![FailClass::Deadlock];
        }
        "C18" => {
            let never = case.program.threads.iter().flatten().any(|o| matches!(o, Op::Await { v, .. } | Op::AwaitY { v, .. } if *v == crate::gen::NEVER));
            if never {
                // a loop whose condition can never become true must be reported (branch limit)
                let mut rep = run_case(&case.program, &case.config, &CaseOpts { internal_is_violation: false, ignore_classes: vec![FailClass::BranchLimit], ..CaseOpts::default() }, &mut rng);
                if !rep.status.starts_with("failed:BranchLimit") {
                    rep.violations.push(crate::cases::Violation {
                        kind: "spin".into(),
                        detail: format!("the awaited value is never stored, so the model must stop at the branch limit; got {}", rep.status),
                        known: None,
                        evidence: serde_json::json!({}),
                    });
                }
                return rep;
            }
            opts.o1 = Some(MachineCfg::must());
            opts.o2 = true;
            // the condition is established in every execution: no failure of any kind is expected
            opts.internal_is_violation = true;
        }
        "C14" => {
            opts.o4 = true;
            opts.internal_is_violation = false;
            opts.ignore_classes = vec![FailClass::Race, leak, FailClass::Deadlock, FailClass::LoomInternal];
        }
        _ => panic!("unknown check {}", check),
    }
    // K6 (unlock is invisible to loom's partial-order reduction): which try-acquire results are
    // explored is a recorded finding; completeness is not demanded of programs with try-acquires
    // (their validity, O2/O3b, still is). The finding itself is probed by fixed witness programs.
    let ws = witnesses(check);
    let is_witness = (run as usize) < ws.len();
    if ((has_yield(&case.program) && !yields_only_inside_plain_sections(&case.program)) || (has_try_acquire(&case.program) && !try_acquires_decidable(&case.program)) || has_unpark_order_sensitivity(&case.program) || (check != "C02" && has_sc_fence_order_sensitivity(&case.program)))
        && !is_witness
    {
        // (what loom did explore is still judged iteration by iteration)
        opts.race_iter = opts.o3_must_classes.iter().any(|c| *c == FailClass::Race);
        opts.o1 = None;
        opts.o3_must_classes.clear();
    }
    if is_witness {
        opts.attribute = false;
        // witnesses of K6 demand what loom's scheduling granularity hides
        let mut m = opts.o1.clone().unwrap_or_else(MachineCfg::must);
        m.switch_only_at_branch_points = false;
        opts.o1 = Some(m);
        if check == "C04" {
            opts.o1 = None;
        } else if !opts.o3_must_classes.contains(&FailClass::Deadlock) {
            opts.o3_must_classes.push(FailClass::Deadlock);
        }
    }
    let mut rep = run_case(&case.program, &case.config, &opts, &mut rng);
    if is_witness {
        let (id, _, kind) = &ws[run as usize];
        for v in rep.violations.iter_mut() {
            if v.known.is_none() && &v.kind == kind {
                v.known = Some(id.to_string());
            }
        }
    }
    rep
}

/// `yield_now` has scheduling semantics of its own in loom (the yielder is not resumed while
/// another thread can run; property C18): the reference treats it as a no-op, so completeness is
/// not demanded of programs that yield outside the C18 family (validity still is).
pub fn has_yield(p: &Program) -> bool {
    p.threads.iter().flatten().any(|op| {
        let o = op.inner();
        matches!(o, Op::Yield)
    })
}

/// `yield_now` inside a critical section that has no other scheduling point ("lock; cell
/// accesses; yield; cell accesses; unlock", the convoy template): loom's special scheduling of the
/// yielder (resumed only when nobody else can run) loses no outcome there - every order of the
/// critical sections is reached through the dependence of the acquires - so completeness is
/// demanded although the program yields.
pub fn yields_only_inside_plain_sections(p: &Program) -> bool {
    // nothing but spawn / join, sections on locks and cell accesses anywhere in the program: while
    // the yielder waits to be resumed, every other thread runs into the held lock, ends, or joins
    let plain = p.threads.iter().flatten().all(|o| {
        matches!(
            o,
            Op::Spawn { .. } | Op::Join { .. } | Op::Yield | Op::CRead { .. } | Op::CWrite { .. } | Op::Lock { .. } | Op::Unlock { .. } | Op::RLock { .. } | Op::RUnlock { .. } | Op::WLock { .. } | Op::WUnlock { .. }
        )
    });
    if !plain || p.n_mutex + p.n_rwlock != 1 {
        return false;
    }
    for ops in &p.threads {
        for (pc, op) in ops.iter().enumerate() {
            if !matches!(op.inner(), Op::Yield) {
                continue;
            }
            if !matches!(op, Op::Yield) {
                return false;
            }
            // backwards to the acquire, forwards to the release: cell accesses only
            let mut i = pc;
            let acq = loop {
                if i == 0 {
                    return false;
                }
                i -= 1;
                match &ops[i] {
                    Op::CRead { .. } | Op::CWrite { .. } => {}
                    o @ (Op::Lock { .. } | Op::RLock { .. } | Op::WLock { .. }) => break o.clone(),
                    _ => return false,
                }
            };
            let mut j = pc + 1;
            loop {
                match ops.get(j) {
                    Some(Op::CRead { .. }) | Some(Op::CWrite { .. }) => j += 1,
                    Some(Op::Unlock { m }) => {
                        if !matches!(acq, Op::Lock { m: x } if x == *m) {
                            return false;
                        }
                        break;
                    }
                    Some(Op::RUnlock { l }) => {
                        if !matches!(acq, Op::RLock { l: x } if x == *l) {
                            return false;
                        }
                        break;
                    }
                    Some(Op::WUnlock { l }) => {
                        if !matches!(acq, Op::WLock { l: x } if x == *l) {
                            return false;
                        }
                        break;
                    }
                    _ => return false,
                }
            }
        }
    }
    true
}

pub fn has_try_acquire(p: &Program) -> bool {
    p.threads.iter().flatten().any(|op| {
        let o = op.inner();
        matches!(o, Op::TryLock { .. } | Op::TryRLock { .. } | Op::TryWLock { .. })
    })
}

/// Programs with try-acquires whose completeness verdict does NOT depend on what finding K6
/// hides. K6: `unlock` is glued to the tracked operation X that precedes it and loom treats X and
/// another thread's try-acquire as independent, so swapping them changes the try's result without
/// loom exploring both orders. That cannot happen when, for every lock L that is try-acquired:
///  (A) X is the acquire of L itself - the critical section contains no operation with a
///      scheduling point (cell accesses only), or
///  (B) X is a `recv` on a channel that only the (single) trying thread sends on, and only after
///      its last try-acquire - X happens-after every try, the holder is blocked at each of them.
/// Then every try's result is a function of the order of the acquire operations on L, which
/// loom's partial-order reduction does track, and the coarse-granularity MUST walk is a sound
/// yardstick (demanded by C01/C07 for the `gen_try_decidable` family).
pub fn try_acquires_decidable(p: &Program) -> bool {
    fn lock_id(o: &Op) -> Option<(u8, u8)> {
        match o {
            Op::Lock { m } | Op::TryLock { m } | Op::Unlock { m } | Op::UnwindLock { m } => Some((0, *m)),
            Op::RLock { l } | Op::TryRLock { l } | Op::WLock { l } | Op::TryWLock { l } | Op::RUnlock { l } | Op::WUnlock { l } => Some((1, *l)),
            _ => None,
        }
    }
    #[derive(PartialEq)]
    enum St {
        Out,
        Held((u8, u8), bool),
        Try(u8, (u8, u8)),
    }
    let mut trier: Option<usize> = None;
    let mut last_try_end = 0usize;
    let mut blocked_chans: Vec<(u8, usize)> = Vec::new();
    for (t, ops) in p.threads.iter().enumerate() {
        let mut st = St::Out;
        for (pc, op) in ops.iter().enumerate() {
            if op.is_caught() {
                return false;
            }
            if matches!(op.inner(), Op::CvWait { .. } | Op::CvWaitUntil { .. } | Op::UnwindLock { .. } | Op::Panic { .. } | Op::Crash) {
                return false;
            }
            match st {
                St::Out => match op {
                    Op::Lock { .. } | Op::RLock { .. } | Op::WLock { .. } => st = St::Held(lock_id(op).unwrap(), false),
                    Op::TryLock { .. } | Op::TryRLock { .. } | Op::TryWLock { .. } => {
                        if trier.is_some() && trier != Some(t) {
                            // (one trying thread: condition (B) is stated for it)
                            return false;
                        }
                        trier = Some(t);
                        st = St::Try(pc as u8, lock_id(op).unwrap());
                    }
                    Op::If { .. } => return false,
                    _ => {
                        if lock_id(op).is_some() {
                            return false;
                        }
                    }
                },
                St::Held(l, blocked) => match op {
                    Op::CRead { .. } | Op::CWrite { .. } => {}
                    Op::Recv { c } if !blocked => {
                        blocked_chans.push((*c, t));
                        st = St::Held(l, true);
                    }
                    Op::Unlock { .. } | Op::RUnlock { .. } | Op::WUnlock { .. } if lock_id(op) == Some(l) => st = St::Out,
                    _ => return false,
                },
                St::Try(tp, l) => match op {
                    Op::If { pc: q, then, .. } if *q == tp && matches!(**then, Op::CRead { .. } | Op::CWrite { .. }) => {}
                    Op::If { pc: q, eq: 1, then } if *q == tp && matches!(**then, Op::Unlock { .. } | Op::RUnlock { .. } | Op::WUnlock { .. }) && lock_id(then) == Some(l) => {
                        st = St::Out;
                        last_try_end = pc;
                    }
                    _ => return false,
                },
            }
        }
        if st != St::Out {
            return false;
        }
    }
    let trier = match trier {
        Some(t) => t,
        None => return true,
    };
    for (c, holder) in blocked_chans {
        if holder == trier {
            return false;
        }
        for (t, ops) in p.threads.iter().enumerate() {
            for (pc, op) in ops.iter().enumerate() {
                match op.inner() {
                    Op::Send { c: x, .. } | Op::SendBomb { c: x, .. } | Op::DropTx { c: x } if *x == c => {
                        if t != trier || pc <= last_try_end || matches!(op, Op::If { .. }) {
                            return false;
                        }
                    }
                    Op::TryRecv { c: x } | Op::DropRx { c: x } if *x == c => return false,
                    _ => {}
                }
            }
        }
    }
    true
}

/// `unpark` has no scheduling point and is not tracked by loom's partial-order reduction (K6):
/// the order between one thread's return from `park` and another thread's `unpark` is only
/// explored as far as other operations force it. That order matters exactly when a thread parks
/// more than once and is unparked more than once (an unpark is absorbed while another is pending).
pub fn has_unpark_order_sensitivity(p: &Program) -> bool {
    fn strip(op: &Op) -> &Op {
        op.inner()
    }
    for t in 0..p.threads.len() {
        let parks = p.threads[t].iter().filter(|o| matches!(strip(o), Op::Park)).count();
        let unparks = p.threads.iter().flatten().filter(|o| matches!(strip(o), Op::Unpark { t: x } if *x as usize == t)).count();
        if parks >= 2 && unparks >= 2 {
            return true;
        }
    }
    false
}

/// SeqCst fences have no scheduling point either (K6): the order of two SeqCst fences of
/// different threads is only explored as far as other operations force it. For non-atomic data
/// that order decides what happens-before what.
pub fn has_sc_fence_order_sensitivity(p: &Program) -> bool {
    let with_fence = p
        .threads
        .iter()
        .filter(|t| {
            t.iter().any(|op| {
                let o = op.inner();
                matches!(o, Op::Fence { o: MO::Sc })
            })
        })
        .count();
    with_fence >= 2
}

/// Fixed witness programs of open known findings, run as the first runs of a check:
/// (finding id, program, violation kind expected while the finding is open).
pub fn witnesses(check: &str) -> Vec<(&'static str, Program, &'static str)> {
    let mut v = Vec::new();
    if check == "C01" || check == "C07" {
        // T0: spawn(T1) trylock(m0) unlock(m0) join(T1) | T1: lock(m0) unlock(m0)  -- trylock never fails
        let mut p = Program { n_mutex: 1, ..Default::default() };
        p.threads = vec![
            vec![Op::Spawn { t: 1 }, Op::TryLock { m: 0 }, Op::Unlock { m: 0 }, Op::Join { t: 1 }],
            vec![Op::Lock { m: 0 }, Op::Unlock { m: 0 }],
        ];
        v.push(("K6-ops-without-scheduling-point", p, "missing_outcome"));
        // try_write against a reader
        let mut p = Program { n_rwlock: 1, ..Default::default() };
        p.threads = vec![
            vec![Op::Spawn { t: 1 }, Op::TryWLock { l: 0 }, Op::WUnlock { l: 0 }, Op::Join { t: 1 }],
            vec![Op::RLock { l: 0 }, Op::RUnlock { l: 0 }],
        ];
        v.push(("K6-ops-without-scheduling-point", p, "missing_outcome"));
    }
    if check == "C18" {
        // K9: main reads a1 after a yield-first await on a relaxed flag; reading the initial value
        // is allowed (nothing orders T1's stores before the load) but loom's yield pruning never
        // offers a value "seen" before the yield once a newer store exists
        let mut p = Program { atomics: vec![0, 0], ..Default::default() };
        p.threads = vec![
            vec![Op::Spawn { t: 1 }, Op::AwaitY { a: 0, o: MO::Acq, v: 48 }, Op::Load { a: 1, o: MO::Sc }, Op::Join { t: 1 }],
            vec![Op::Store { a: 1, v: 16, o: MO::Rel }, Op::Store { a: 1, v: 32, o: MO::Rel }, Op::Store { a: 0, v: 48, o: MO::Rlx }],
        ];
        v.push(("K9-yield-prunes-stale-rereads", p, "missing_outcome"));
    }
    if check == "C07" {
        // K7: a lock taken by a destructor during the unwinding of a caught panic blocks; the
        // other threads then see panicking()==true and poison loom's inner std mutex
        let mut p = Program { atomics: vec![0, 0], n_mutex: 1, ..Default::default() };
        p.threads = vec![
            vec![
                Op::Spawn { t: 1 },
                Op::Spawn { t: 2 },
                Op::Lock { m: 0 },
                Op::Store { a: 0, v: 16, o: MO::Sc },
                Op::Store { a: 0, v: 32, o: MO::Sc },
                Op::Unlock { m: 0 },
                Op::Join { t: 1 },
                Op::Join { t: 2 },
            ],
            vec![Op::Load { a: 1, o: MO::Sc }, Op::Lock { m: 0 }, Op::Load { a: 0, o: MO::Sc }, Op::FetchAdd { a: 1, v: 1, o: MO::Sc }, Op::Unlock { m: 0 }],
            vec![Op::UnwindLock { m: 0 }],
        ];
        v.push(("K7-panicking-flag-shared-by-modeled-threads", p, "internal"));
    }
    if check == "C04" {
        // the race exists when T2 (fence, then write) runs before T1 (write, then fence); loom only
        // explores the fence order in which T1's fence comes first
        let mut p = Program { atomics: vec![0, 0], n_cell: 1, ..Default::default() };
        p.threads = vec![
            vec![
                Op::Spawn { t: 1 },
                Op::Spawn { t: 2 },
                Op::Load { a: 0, o: MO::Acq },
                Op::Fence { o: MO::Sc },
                Op::Store { a: 1, v: 32, o: MO::Rlx },
                Op::Join { t: 1 },
                Op::Join { t: 2 },
            ],
            vec![Op::CWrite { c: 0, v: 7 }, Op::Fence { o: MO::Sc }, Op::Store { a: 0, v: 16, o: MO::Rlx }],
            vec![Op::Load { a: 1, o: MO::Rlx }, Op::Fence { o: MO::Sc }, Op::If { pc: 0, eq: 32, then: Box::new(Op::CWrite { c: 0, v: 7 }) }],
        ];
        v.push(("K6-ops-without-scheduling-point", p, "missed_report"));
    }
    if check == "C01" || check == "C05" || check == "C08" {
        // two unparks racing with the wake-up of a thread that parks twice: the deadlock (second
        // unpark absorbed) is never explored
        let mut p = Program::default();
        p.threads = vec![
            vec![Op::Spawn { t: 1 }, Op::Spawn { t: 2 }, Op::Park, Op::Park],
            vec![Op::Unpark { t: 0 }],
            vec![Op::Unpark { t: 0 }],
        ];
        v.push(("K6-ops-without-scheduling-point", p, "missed_report"));
    }
    v
}

/// Known-finding attribution for a worker death (abort / hang) on this case, if any.
pub fn death_known(_check: &str, _case: &Case) -> Option<String> {
    None
}

pub fn rule_text(check: &str) -> String {
    match check {
        "C02" | "C03" => "seeded swarm generation of atomics-only litmus programs (T0 spawns 2-3 threads of 1-4 loads/stores/RMWs/CAS/fences over 1-3 locations with a per-run ordering palette, joins them and reads every location; every stored value is unique); a program counts as non-trivial if it has >= 2 threads and two ops of different threads touch the same object, one of them not a pure read; distinct = distinct canonical program text (hash)".into(),
        _ => "seeded swarm generation; non-trivial = >= 2 threads with a cross-thread conflicting pair on a shared object; distinct by canonical program text".into(),
    }
}

pub fn simulated_time_text(check: &str) -> String {
    match check {
        "C19" => "see probes (simulated clock advanced per iteration)".into(),
        _ => "not applicable: nothing in this property reads a clock".into(),
    }
}

pub fn assumptions(check: &str) -> Vec<String> {
    let mut v = vec![
        "sampling, not enumeration: a clean batch bounds nothing beyond the programs, schedules and faults drawn".to_string(),
        "the reference machine and the RC11 axiom checker (sim/src/machine.rs, graph.rs) are trusted; they are calibrated by the litmus self-test".to_string(),
        "return order of the interpreter's events equals effect order inside loom (loom is serial; switches only at branch points preceding the effect)".to_string(),
    ];
    if matches!(check, "C02" | "C03" | "C04" | "C18") {
        v.push("MUST reading = RC11 with strict SeqCst and C++11 release sequences; MAY reading = SeqCst accesses as acquire/release, C++20 release sequences".to_string());
    }
    v
}
