//! Seeded, swarm-configured program generators (one family per group of properties).

use crate::dsl::*;
use crate::rng::Rng;

#[derive(Clone, Copy, Debug, PartialEq, Eq)]
pub enum Palette {
    RlxOnly,
    RelAcq,
    All,
}

fn pick_load_ord(rng: &mut Rng, pal: Palette) -> MO {
    match pal {
        Palette::RlxOnly => MO::Rlx,
        Palette::RelAcq => *rng.pick(&[MO::Rlx, MO::Acq, MO::Acq]),
        Palette::All => *rng.pick(&[MO::Rlx, MO::Acq, MO::Acq, MO::Sc]),
    }
}
fn pick_store_ord(rng: &mut Rng, pal: Palette) -> MO {
    match pal {
        Palette::RlxOnly => MO::Rlx,
        Palette::RelAcq => *rng.pick(&[MO::Rlx, MO::Rel, MO::Rel]),
        Palette::All => *rng.pick(&[MO::Rlx, MO::Rel, MO::Rel, MO::Sc]),
    }
}
fn pick_rmw_ord(rng: &mut Rng, pal: Palette) -> MO {
    match pal {
        Palette::RlxOnly => MO::Rlx,
        Palette::RelAcq => *rng.pick(&[MO::Rlx, MO::Acq, MO::Rel, MO::AcqRel]),
        Palette::All => *rng.pick(&[MO::Rlx, MO::Acq, MO::Rel, MO::AcqRel, MO::Sc]),
    }
}
fn pick_fence_ord(rng: &mut Rng, pal: Palette) -> MO {
    match pal {
        Palette::RlxOnly | Palette::RelAcq => *rng.pick(&[MO::Acq, MO::Rel, MO::AcqRel]),
        Palette::All => *rng.pick(&[MO::Acq, MO::Rel, MO::AcqRel, MO::Sc, MO::Sc]),
    }
}

pub struct ValueSrc {
    next_const: u64,
    next_bit: u64,
}
impl ValueSrc {
    pub fn new() -> ValueSrc {
        ValueSrc { next_const: 16, next_bit: 1 }
    }
    pub fn constant(&mut self) -> u64 {
        let v = self.next_const;
        self.next_const += 16;
        v
    }
    pub fn bit(&mut self) -> Option<u64> {
        if self.next_bit > 8 {
            return None;
        }
        let v = self.next_bit;
        self.next_bit <<= 1;
        Some(v)
    }
}

#[derive(Clone, Debug)]
pub struct LitmusProfile {
    pub spawned: usize,
    pub locs: usize,
    pub max_ops: usize,
    pub palette: Palette,
    pub rmw: bool,
    pub fences: bool,
    pub cas: bool,
    pub main_participates: bool,
    pub final_reads: bool,
    pub max_access_per_loc: usize,
    pub max_total: usize,
}

pub fn litmus_profile(rng: &mut Rng, big: bool) -> LitmusProfile {
    let spawned = if rng.chance(1, 5) { 3 } else { 2 };
    let palette = *rng.pick(&[Palette::RlxOnly, Palette::RelAcq, Palette::RelAcq, Palette::All, Palette::All]);
    LitmusProfile {
        spawned,
        locs: rng.range(1, if spawned == 3 { 3 } else { 2 }),
        max_ops: if big { rng.range(2, 4) } else { rng.range(1, 3) },
        palette,
        rmw: rng.chance(1, 2),
        fences: palette != Palette::RlxOnly && rng.chance(1, 2),
        cas: rng.chance(1, 3),
        main_participates: rng.chance(1, 4),
        final_reads: rng.chance(3, 4),
        max_access_per_loc: if big { 5 } else { 4 },
        max_total: if big { 9 } else { 7 },
    }
}

/// Atomics-only litmus programs: T0 spawns T1..Tk, (optionally runs ops itself), joins all and
/// reads every location.
pub fn gen_litmus(rng: &mut Rng, pr: &LitmusProfile) -> Program {
    let mut vs = ValueSrc::new();
    let nt = pr.spawned + 1;
    let mut p = Program { atomics: vec![0; pr.locs], ..Default::default() };
    p.threads = vec![Vec::new(); nt];
    let mut per_loc = vec![0usize; pr.locs];
    let mut writes_per_loc = vec![0usize; pr.locs];
    // constants written to each location so far (for CAS expectations)
    let mut consts: Vec<Vec<u64>> = vec![vec![0]; pr.locs];
    let mut total = 0usize;
    let mut bodies: Vec<Vec<Op>> = vec![Vec::new(); nt];
    let first = if pr.main_participates { 0 } else { 1 };
    for t in first..nt {
        let n = rng.range(1, pr.max_ops);
        for _ in 0..n {
            if total >= pr.max_total {
                break;
            }
            // fence?
            if pr.fences && rng.chance(1, 4) {
                bodies[t].push(Op::Fence { o: pick_fence_ord(rng, pr.palette) });
                continue;
            }
            let a = rng.below(pr.locs);
            if per_loc[a] >= pr.max_access_per_loc {
                continue;
            }
            let can_write = writes_per_loc[a] < 4;
            let kind = rng.below(10);
            let op = if kind < 4 || !can_write {
                Op::Load { a: a as u8, o: pick_load_ord(rng, pr.palette) }
            } else if kind < 8 || !pr.rmw {
                let v = vs.constant();
                consts[a].push(v);
                Op::Store { a: a as u8, v, o: pick_store_ord(rng, pr.palette) }
            } else {
                let o = pick_rmw_ord(rng, pr.palette);
                match rng.below(3) {
                    0 => {
                        let v = vs.constant();
                        consts[a].push(v);
                        Op::Swap { a: a as u8, v, o }
                    }
                    1 => match vs.bit() {
                        Some(b) => Op::FetchAdd { a: a as u8, v: b, o },
                        None => {
                            let v = vs.constant();
                            consts[a].push(v);
                            Op::Swap { a: a as u8, v, o }
                        }
                    },
                    _ if pr.cas => {
                        let e = *rng.pick(&consts[a]);
                        let n = vs.constant();
                        consts[a].push(n);
                        let fo = pick_load_ord(rng, pr.palette);
                        Op::Cas { a: a as u8, e, n, so: o, fo }
                    }
                    _ => {
                        let v = vs.constant();
                        consts[a].push(v);
                        Op::Swap { a: a as u8, v, o }
                    }
                }
            };
            if op.is_atomic_write() {
                writes_per_loc[a] += 1;
            }
            per_loc[a] += 1;
            total += 1;
            bodies[t].push(op);
        }
    }
    // make sure every spawned thread has at least one op
    for t in 1..nt {
        if bodies[t].is_empty() {
            let a = rng.below(pr.locs);
            bodies[t].push(Op::Load { a: a as u8, o: pick_load_ord(rng, pr.palette) });
        }
    }
    for t in 1..nt {
        p.threads[0].push(Op::Spawn { t: t as u8 });
    }
    let main_body = std::mem::take(&mut bodies[0]);
    p.threads[0].extend(main_body);
    for t in 1..nt {
        p.threads[0].push(Op::Join { t: t as u8 });
    }
    if pr.final_reads {
        for a in 0..pr.locs {
            p.threads[0].push(Op::Load { a: a as u8, o: MO::Rlx });
        }
    }
    for t in 1..nt {
        p.threads[t] = std::mem::take(&mut bodies[t]);
    }
    p
}

/// Classic litmus shapes with per-run random orderings, fences and store->RMW substitutions.
/// Notation per op: "Wx" store, "Rx" load, "Ux" rmw, "F" fence; x in a..c.
const TEMPLATES: &[&[&str]] = &[
    // MP
    &["Wa Wb", "Rb Ra"],
    &["Wa F Wb", "Rb F Ra"],
    // SB
    &["Wa Rb", "Wb Ra"],
    &["Wa F Rb", "Wb F Ra"],
    // LB
    &["Ra Wb", "Rb Wa"],
    // IRIW
    &["Wa", "Wb", "Ra Rb", "Rb Ra"],
    &["Wa", "Wb", "Ra F Rb", "Rb F Ra"],
    // WRC
    &["Wa", "Ra Wb", "Rb Ra"],
    &["Wa", "Ra Wb", "Rb F Ra"],
    &["Wa", "Ra F Wb", "Rb F Ra"],
    // ISA2
    &["Wa Wb", "Rb Wc", "Rc Ra"],
    &["Wa Wb", "Rb Wc", "Rc F Ra"],
    // 2+2W
    &["Wa Wb", "Wb Wa"],
    // CoRR / CoWR
    &["Wa", "Wa", "Ra Ra"],
    &["Wa", "Wa Ra", "Ra Ra"],
    // RWC
    &["Wa", "Ra Rb", "Wb Ra"],
    &["Wa", "Ra F Rb", "Wb F Ra"],
    // W+RWC
    &["Wa Wb", "Rb F Rc", "Wc F Ra"],
    // release sequence through an RMW
    &["Wa Wb", "Ub", "Rb Ra"],
    &["Wa Wb Wb", "Rb Ra"],
    // RMW vs store, RMW vs RMW
    &["Ua", "Ua", "Ra"],
    &["Ua", "Wa", "Ra Ra"],
    &["Wa Ua", "Ua Ra"],
    // S, R shapes
    &["Wa Wb", "Rb Wa"],
    &["Wa Wb", "Wb Ra"],
    // 3-location chains
    &["Wa Wb", "Rb F Wc", "Rc F Ra"],
    &["Wa F Wb", "Ub Wc", "Rc Ra"],
];

pub fn gen_litmus_template(rng: &mut Rng) -> Program {
    let tpl = *rng.pick(TEMPLATES);
    let pal = *rng.pick(&[Palette::RlxOnly, Palette::RelAcq, Palette::RelAcq, Palette::All, Palette::All]);
    let mut vs = ValueSrc::new();
    let nt = tpl.len() + 1;
    let mut p = Program { atomics: vec![0; 3], ..Default::default() };
    p.threads = vec![Vec::new(); nt];
    let mut used = [false; 3];
    let rmw_subst = rng.chance(1, 5);
    for (i, th) in tpl.iter().enumerate() {
        let t = i + 1;
        for tok in th.split_whitespace() {
            let b = tok.as_bytes();
            let loc = if b.len() > 1 { (b[1] - b'a') as usize } else { 0 };
            let op = match b[0] {
                b'F' => Op::Fence { o: pick_fence_ord(rng, if pal == Palette::RlxOnly { Palette::RelAcq } else { pal }) },
                b'R' => {
                    used[loc] = true;
                    Op::Load { a: loc as u8, o: pick_load_ord(rng, pal) }
                }
                b'W' => {
                    used[loc] = true;
                    if rmw_subst && rng.chance(1, 3) {
                        Op::Swap { a: loc as u8, v: vs.constant(), o: pick_rmw_ord(rng, pal) }
                    } else {
                        Op::Store { a: loc as u8, v: vs.constant(), o: pick_store_ord(rng, pal) }
                    }
                }
                b'U' => {
                    used[loc] = true;
                    let o = pick_rmw_ord(rng, pal);
                    match vs.bit() {
                        Some(bit) if rng.chance(1, 2) => Op::FetchAdd { a: loc as u8, v: bit, o },
                        _ => Op::Swap { a: loc as u8, v: vs.constant(), o },
                    }
                }
                _ => unreachable!(),
            };
            p.threads[t].push(op);
        }
    }
    // drop a fence now and then so that fence-less variants of the fenced shapes appear too
    if rng.chance(1, 6) {
        for t in 1..nt {
            if let Some(i) = p.threads[t].iter().position(|o| matches!(o, Op::Fence { .. })) {
                if rng.chance(1, 2) {
                    p.threads[t].remove(i);
                }
            }
        }
    }
    let nloc = used.iter().rposition(|&u| u).map(|i| i + 1).unwrap_or(1);
    p.atomics.truncate(nloc);
    for t in 1..nt {
        p.threads[0].push(Op::Spawn { t: t as u8 });
    }
    for t in 1..nt {
        p.threads[0].push(Op::Join { t: t as u8 });
    }
    if rng.chance(2, 3) {
        for a in 0..nloc {
            p.threads[0].push(Op::Load { a: a as u8, o: MO::Rlx });
        }
    }
    p
}
