//! Seeded, swarm-configured program generators (one family per group of properties).

use crate::dsl::*;
use crate::rng::Rng;

#[derive(Clone, Copy, Debug, PartialEq, Eq)]
pub enum Palette {
    RlxOnly,
    RelAcq,
    All,
}

fn pick_load_ord(rng: &mut Rng, pal: Palette) -> MO {
    match pal {
        Palette::RlxOnly => MO::Rlx,
        Palette::RelAcq => *rng.pick(&[MO::Rlx, MO::Acq, MO::Acq]),
        Palette::All => *rng.pick(&[MO::Rlx, MO::Acq, MO::Acq, MO::Sc]),
    }
}
fn pick_store_ord(rng: &mut Rng, pal: Palette) -> MO {
    match pal {
        Palette::RlxOnly => MO::Rlx,
        Palette::RelAcq => *rng.pick(&[MO::Rlx, MO::Rel, MO::Rel]),
        Palette::All => *rng.pick(&[MO::Rlx, MO::Rel, MO::Rel, MO::Sc]),
    }
}
fn pick_rmw_ord(rng: &mut Rng, pal: Palette) -> MO {
    match pal {
        Palette::RlxOnly => MO::Rlx,
        Palette::RelAcq => *rng.pick(&[MO::Rlx, MO::Acq, MO::Rel, MO::AcqRel]),
        Palette::All => *rng.pick(&[MO::Rlx, MO::Acq, MO::Rel, MO::AcqRel, MO::Sc]),
    }
}
fn pick_fence_ord(rng: &mut Rng, pal: Palette) -> MO {
    match pal {
        Palette::RlxOnly | Palette::RelAcq => *rng.pick(&[MO::Acq, MO::Rel, MO::AcqRel]),
        Palette::All => *rng.pick(&[MO::Acq, MO::Rel, MO::AcqRel, MO::Sc, MO::Sc]),
    }
}

pub struct ValueSrc {
    next_const: u64,
    next_bit: u64,
}
impl ValueSrc {
    pub fn new() -> ValueSrc {
        ValueSrc { next_const: 16, next_bit: 1 }
    }
    pub fn constant(&mut self) -> u64 {
        let v = self.next_const;
        self.next_const += 16;
        v
    }
    pub fn bit(&mut self) -> Option<u64> {
        if self.next_bit > 8 {
            return None;
        }
        let v = self.next_bit;
        self.next_bit <<= 1;
        Some(v)
    }
}

#[derive(Clone, Debug)]
pub struct LitmusProfile {
    pub spawned: usize,
    pub locs: usize,
    pub max_ops: usize,
    pub palette: Palette,
    pub rmw: bool,
    pub fences: bool,
    pub cas: bool,
    pub main_participates: bool,
    pub final_reads: bool,
    pub max_access_per_loc: usize,
    pub max_total: usize,
}

pub fn litmus_profile(rng: &mut Rng, big: bool) -> LitmusProfile {
    let spawned = if rng.chance(1, 5) { 3 } else { 2 };
    let palette = *rng.pick(&[Palette::RlxOnly, Palette::RelAcq, Palette::RelAcq, Palette::All, Palette::All]);
    LitmusProfile {
        spawned,
        locs: rng.range(1, if spawned == 3 { 3 } else { 2 }),
        max_ops: if big { rng.range(2, 4) } else { rng.range(1, 3) },
        palette,
        rmw: rng.chance(1, 2),
        fences: palette != Palette::RlxOnly && rng.chance(1, 2),
        cas: rng.chance(1, 3),
        main_participates: rng.chance(1, 4),
        final_reads: rng.chance(3, 4),
        max_access_per_loc: if big { 5 } else { 4 },
        max_total: if big { 9 } else { 7 },
    }
}

/// Atomics-only litmus programs: T0 spawns T1..Tk, (optionally runs ops itself), joins all and
/// reads every location.
pub fn gen_litmus(rng: &mut Rng, pr: &LitmusProfile) -> Program {
    let mut vs = ValueSrc::new();
    let nt = pr.spawned + 1;
    let mut p = Program { atomics: vec![0; pr.locs], ..Default::default() };
    p.threads = vec![Vec::new(); nt];
    let mut per_loc = vec![0usize; pr.locs];
    let mut writes_per_loc = vec![0usize; pr.locs];
    // constants written to each location so far (for CAS expectations)
    let mut consts: Vec<Vec<u64>> = vec![vec![0]; pr.locs];
    let mut total = 0usize;
    let mut bodies: Vec<Vec<Op>> = vec![Vec::new(); nt];
    let first = if pr.main_participates { 0 } else { 1 };
    for t in first..nt {
        let n = rng.range(1, pr.max_ops);
        for _ in 0..n {
            if total >= pr.max_total {
                break;
            }
            // fence?
            if pr.fences && rng.chance(1, 4) {
                bodies[t].push(Op::Fence { o: pick_fence_ord(rng, pr.palette) });
                continue;
            }
            let a = rng.below(pr.locs);
            if per_loc[a] >= pr.max_access_per_loc {
                continue;
            }
            let can_write = writes_per_loc[a] < 4;
            let kind = rng.below(10);
            let op = if kind < 4 || !can_write {
                Op::Load { a: a as u8, o: pick_load_ord(rng, pr.palette) }
            } else if kind < 8 || !pr.rmw {
                let v = vs.constant();
                consts[a].push(v);
                Op::Store { a: a as u8, v, o: pick_store_ord(rng, pr.palette) }
            } else {
                let o = pick_rmw_ord(rng, pr.palette);
                match rng.below(3) {
                    0 => {
                        let v = vs.constant();
                        consts[a].push(v);
                        Op::Swap { a: a as u8, v, o }
                    }
                    1 => match vs.bit() {
                        Some(b) => Op::FetchAdd { a: a as u8, v: b, o },
                        None => {
                            let v = vs.constant();
                            consts[a].push(v);
                            Op::Swap { a: a as u8, v, o }
                        }
                    },
                    _ if pr.cas => {
                        let e = *rng.pick(&consts[a]);
                        let n = vs.constant();
                        consts[a].push(n);
                        let fo = pick_load_ord(rng, pr.palette);
                        Op::Cas { a: a as u8, e, n, so: o, fo }
                    }
                    _ => {
                        let v = vs.constant();
                        consts[a].push(v);
                        Op::Swap { a: a as u8, v, o }
                    }
                }
            };
            if op.is_atomic_write() {
                writes_per_loc[a] += 1;
            }
            per_loc[a] += 1;
            total += 1;
            bodies[t].push(op);
        }
    }
    // make sure every spawned thread has at least one op
    for t in 1..nt {
        if bodies[t].is_empty() {
            let a = rng.below(pr.locs);
            bodies[t].push(Op::Load { a: a as u8, o: pick_load_ord(rng, pr.palette) });
        }
    }
    for t in 1..nt {
        p.threads[0].push(Op::Spawn { t: t as u8 });
    }
    let main_body = std::mem::take(&mut bodies[0]);
    p.threads[0].extend(main_body);
    for t in 1..nt {
        p.threads[0].push(Op::Join { t: t as u8 });
    }
    if pr.final_reads {
        for a in 0..pr.locs {
            p.threads[0].push(Op::Load { a: a as u8, o: MO::Rlx });
        }
    }
    for t in 1..nt {
        p.threads[t] = std::mem::take(&mut bodies[t]);
    }
    p
}

/// Classic litmus shapes with per-run random orderings, fences and store->RMW substitutions.
/// Notation per op: "Wx" store, "Rx" load, "Ux" rmw, "F" fence; x in a..c.
const TEMPLATES: &[&[&str]] = &[
    // MP
    &["Wa Wb", "Rb Ra"],
    &["Wa F Wb", "Rb F Ra"],
    // SB
    &["Wa Rb", "Wb Ra"],
    &["Wa F Rb", "Wb F Ra"],
    // LB
    &["Ra Wb", "Rb Wa"],
    // IRIW
    &["Wa", "Wb", "Ra Rb", "Rb Ra"],
    &["Wa", "Wb", "Ra F Rb", "Rb F Ra"],
    // WRC
    &["Wa", "Ra Wb", "Rb Ra"],
    &["Wa", "Ra Wb", "Rb F Ra"],
    &["Wa", "Ra F Wb", "Rb F Ra"],
    // ISA2
    &["Wa Wb", "Rb Wc", "Rc Ra"],
    &["Wa Wb", "Rb Wc", "Rc F Ra"],
    // 2+2W
    &["Wa Wb", "Wb Wa"],
    // CoRR / CoWR
    &["Wa", "Wa", "Ra Ra"],
    &["Wa", "Wa Ra", "Ra Ra"],
    // RWC
    &["Wa", "Ra Rb", "Wb Ra"],
    &["Wa", "Ra F Rb", "Wb F Ra"],
    // W+RWC
    &["Wa Wb", "Rb F Rc", "Wc F Ra"],
    // release sequence through an RMW
    &["Wa Wb", "Ub", "Rb Ra"],
    &["Wa Wb Wb", "Rb Ra"],
    // RMW vs store, RMW vs RMW
    &["Ua", "Ua", "Ra"],
    &["Ua", "Wa", "Ra Ra"],
    &["Wa Ua", "Ua Ra"],
    // S, R shapes
    &["Wa Wb", "Rb Wa"],
    &["Wa Wb", "Wb Ra"],
    // coherence through a happens-before chain: a write after another thread's read / write
    &["Wa", "Ra Wb", "Rb Wa Ra"],
    &["Wa", "Ra F Wb", "Rb F Wa Ra"],
    &["Wa", "Ra Wb", "Rb Ua Ra"],
    &["Wa Wb", "Rb Wa Ra"],
    &["Wa", "Ra Wb", "Rb Wc", "Rc Wa Ra"],
    // the same classics with the critical orderings pinned (fence-based synchronisation and the
    // SeqCst-fence order only matter for particular combinations, which random orderings rarely hit)
    &["Wa F:rel Wb:rlx", "Rb:rlx F:acq Ra"],
    &["Wa F:sc Rb", "Wb F:sc Ra"],
    &["Wa", "Wb", "Ra F:sc Rb", "Rb F:sc Ra"],
    &["Wa Wb:rel", "Rb:rlx F:sc Rc", "Wc F:sc Ra"],
    &["Wa Wb:rel", "Rb:acq F:sc Rc", "Wc F:sc Ra"],
    &["Wa:rlx Wb:rel", "Rb:rlx F:acq Wc:rel", "Rc:acq Ra:rlx"],
    &["Wa", "Ra:rlx F:sc Wb", "Rb F:sc Ra"],
    &["Wa F:sc Wb", "Rb:rlx F:sc Ra"],
    // failing compare-exchange: what it synchronises with and what it has seen afterwards
    &["Wa Wb:rel", "Xb:acq Ra:rlx"],
    &["Wa Wb:rel", "Xb:ar Ra:rlx"],
    &["Wa Wb:rel", "Xb:sc Ra:rlx"],
    &["Wa Wb:rel", "Yb:acq Ra:rlx"],
    &["Wa Wb:rel", "Xb:rlx F:acq Ra:rlx"],
    &["Wa", "Xa Ra"],
    &["Wa", "Wa", "Xa Ra Ra"],
    // the order of SeqCst fences is total (three-thread store-buffering ring)
    &["Wa F:sc Rb", "Wb F:sc Rc", "Wc F:sc Ra"],
    &["Wa:rlx F:sc Rb:rlx", "Wb:rlx F:sc Rc:rlx", "Wc:rlx F:sc Ra:rlx"],
    // a load right after a release store of the same thread (version bookkeeping)
    &["Wb", "Wa:rel Rb:rlx Wc:rlx", "Rc:rlx Ra:acq Rb:rlx"],
    &["Wb", "Wa:rel Rb:rlx Wc:rel", "Rc:acq Ra:rlx Rb:rlx"],
    // release sequences continued by a releasing / relaxed RMW
    &["Wa Wb:rel", "Ub:rel", "Rb:acq Ra"],
    &["Wa Wb:rel", "Ub:rlx", "Rb:acq Ra"],
    &["Wa F:rel Ub:acq", "Rb:acq Ra"],
    &["Wa F:rel Ub:rlx", "Rb:rlx F:acq Ra"],
    &["Wa Ub:rel", "Ub:rlx", "Rb:acq Ra"],
    // 3-location chains
    &["Wa Wb", "Rb F Wc", "Rc F Ra"],
    &["Wa F Wb", "Ub Wc", "Rc Ra"],
];

pub fn gen_litmus_template(rng: &mut Rng) -> Program {
    let tpl = *rng.pick(TEMPLATES);
    let pal = *rng.pick(&[Palette::RlxOnly, Palette::RelAcq, Palette::RelAcq, Palette::All, Palette::All]);
    let mut vs = ValueSrc::new();
    let nt = tpl.len() + 1;
    let mut p = Program { atomics: vec![0; 3], ..Default::default() };
    p.threads = vec![Vec::new(); nt];
    let mut used = [false; 3];
    let rmw_subst = rng.chance(1, 5);
    for (i, th) in tpl.iter().enumerate() {
        let t = i + 1;
        for tok in th.split_whitespace() {
            // "<kind><loc>[:<ordering>]": a pinned ordering is kept, the others are drawn
            let (tok, pinned) = match tok.split_once(':') {
                Some((a, o)) => (
                    a,
                    Some(match o {
                        "rlx" => MO::Rlx,
                        "acq" => MO::Acq,
                        "rel" => MO::Rel,
                        "ar" => MO::AcqRel,
                        "sc" => MO::Sc,
                        _ => unreachable!(),
                    }),
                ),
                None => (tok, None),
            };
            let b = tok.as_bytes();
            let loc = if b.len() > 1 { (b[1] - b'a') as usize } else { 0 };
            let op = match b[0] {
                b'F' => {
                    let drawn = pick_fence_ord(rng, if pal == Palette::RlxOnly { Palette::RelAcq } else { pal });
                    Op::Fence { o: pinned.unwrap_or(drawn) }
                }
                b'R' => {
                    used[loc] = true;
                    let drawn = pick_load_ord(rng, pal);
                    Op::Load { a: loc as u8, o: pinned.unwrap_or(drawn) }
                }
                b'W' => {
                    used[loc] = true;
                    if pinned.is_none() && rmw_subst && rng.chance(1, 3) {
                        Op::Swap { a: loc as u8, v: vs.constant(), o: pick_rmw_ord(rng, pal) }
                    } else {
                        let drawn = pick_store_ord(rng, pal);
                        Op::Store { a: loc as u8, v: vs.constant(), o: pinned.unwrap_or(drawn) }
                    }
                }
                b'U' => {
                    used[loc] = true;
                    let drawn = pick_rmw_ord(rng, pal);
                    let o = pinned.unwrap_or(drawn);
                    match vs.bit() {
                        Some(bit) if rng.chance(1, 2) => Op::FetchAdd { a: loc as u8, v: bit, o },
                        _ => Op::Swap { a: loc as u8, v: vs.constant(), o },
                    }
                }
                // a compare-exchange that expects the initial value: it fails whenever it reads
                // another store. 'X': failure ordering Relaxed; 'Y': failure ordering Acquire.
                b'X' | b'Y' => {
                    used[loc] = true;
                    let drawn = pick_rmw_ord(rng, pal);
                    let so = pinned.unwrap_or(drawn);
                    let fo = if b[0] == b'X' { MO::Rlx } else { MO::Acq };
                    Op::Cas { a: loc as u8, e: 0, n: vs.constant(), so, fo }
                }
                _ => unreachable!(),
            };
            p.threads[t].push(op);
        }
    }
    // drop a fence now and then so that fence-less variants of the fenced shapes appear too
    if rng.chance(1, 6) {
        for t in 1..nt {
            if let Some(i) = p.threads[t].iter().position(|o| matches!(o, Op::Fence { .. })) {
                if rng.chance(1, 2) {
                    p.threads[t].remove(i);
                }
            }
        }
    }
    let nloc = used.iter().rposition(|&u| u).map(|i| i + 1).unwrap_or(1);
    p.atomics.truncate(nloc);
    for t in 1..nt {
        p.threads[0].push(Op::Spawn { t: t as u8 });
    }
    for t in 1..nt {
        p.threads[0].push(Op::Join { t: t as u8 });
    }
    if rng.chance(2, 3) {
        for a in 0..nloc {
            p.threads[0].push(Op::Load { a: a as u8, o: MO::Rlx });
        }
    }
    p
}

// ------------------------------------------------------------------------------------------
// sync family: threads + locks + condvars + Notify + park/unpark + channels + cells + atomics

#[derive(Clone, Debug, Default)]
pub struct SyncProfile {
    pub spawned: usize,
    pub max_blocks: usize,
    pub atomics: bool,
    pub mutex: usize,
    pub rwlock: bool,
    pub condvar: bool,
    pub notify: bool,
    pub chan: bool,
    pub park: bool,
    pub cells: bool,
    pub try_ops: bool,
    pub yields: bool,
    /// lock/unlock from a destructor during the unwinding of a caught panic
    pub unwind_sections: bool,
    /// stray wake-ups: unpark of arbitrary threads, duplicate notifies
    pub wake_faults: bool,
    pub main_participates: bool,
    pub join_all: bool,
    pub final_reads: bool,
    pub palette_sc_only: bool,
    pub max_total: usize,
}

pub fn sync_profile(rng: &mut Rng, focus: &str) -> SyncProfile {
    let spawned = *rng.pick(&[1, 2, 2, 2, 3]);
    let mut p = SyncProfile {
        spawned,
        max_blocks: rng.range(1, 3),
        main_participates: rng.chance(1, 2),
        join_all: rng.chance(4, 5),
        final_reads: rng.chance(1, 2),
        palette_sc_only: true,
        max_total: 10,
        ..Default::default()
    };
    // swarm: a random subset of kinds, the focus kind always on
    p.atomics = rng.chance(1, 2);
    p.mutex = *rng.pick(&[0, 1, 1, 2]);
    p.rwlock = rng.chance(1, 4);
    p.condvar = rng.chance(1, 4);
    p.notify = rng.chance(1, 5);
    p.chan = rng.chance(1, 4);
    p.park = rng.chance(1, 4);
    p.cells = rng.chance(1, 3);
    p.try_ops = rng.chance(1, 2);
    p.yields = false; // yield has scheduling semantics of its own (C18); not part of these families
    match focus {
        "lock" => {
            p.yields = rng.chance(1, 5);
            // unwind sections are only exercised by the K7 witness (see checks.rs): generated
            // programs do not contain them
            p.unwind_sections = false;
            p.mutex = rng.range(1, 2);
            p.rwlock = rng.chance(1, 2);
            p.cells = rng.chance(2, 3);
            p.try_ops = rng.chance(2, 3);
            p.condvar = false;
            p.notify = false;
            p.park = false;
            p.chan = false;
        }
        "wait" => {
            p.yields = rng.chance(1, 5);
            p.condvar = rng.chance(2, 3);
            p.notify = rng.chance(1, 3);
            p.park = rng.chance(1, 2);
            if p.condvar && p.mutex == 0 {
                p.mutex = 1;
            }
            p.chan = false;
            p.wake_faults = rng.chance(1, 2);
            p.cells = rng.chance(1, 3);
        }
        "deadlock" => {
            p.yields = rng.chance(1, 4);
            p.mutex = rng.range(1, 2);
            p.condvar = rng.chance(1, 2);
            p.park = rng.chance(1, 2);
            p.chan = rng.chance(1, 3);
            p.notify = rng.chance(1, 4);
            p.wake_faults = rng.chance(2, 3);
            p.cells = false;
            p.atomics = rng.chance(1, 4);
        }
        "chan" => {
            p.chan = true;
            p.condvar = false;
            p.notify = false;
            p.park = false;
            p.mutex = *rng.pick(&[0, 0, 1]);
            p.rwlock = false;
            p.cells = rng.chance(1, 2);
        }
        _ => {}
    }
    if p.condvar && p.mutex == 0 {
        p.mutex = 1;
    }
    p
}

struct SyncGen<'a> {
    rng: &'a mut Rng,
    pr: SyncProfile,
    vs: ValueSrc,
    n_atomics: usize,
    n_cells: usize,
    nt: usize,
    /// designated receiver / Notify waiter threads
    rx_thread: usize,
    nwait_thread: usize,
    total: usize,
}

impl<'a> SyncGen<'a> {
    fn ord(&mut self) -> MO {
        if self.pr.palette_sc_only {
            MO::Sc
        } else {
            *self.rng.pick(&[MO::Rlx, MO::Acq, MO::Rel, MO::Sc])
        }
    }
    fn simple_op(&mut self, t: usize) -> Option<Op> {
        // a non-blocking op usable inside or outside critical sections
        let mut kinds: Vec<u8> = Vec::new();
        if self.pr.atomics {
            kinds.extend([0, 0, 1, 1, 2]);
        }
        if self.pr.cells {
            kinds.extend([3, 4]);
        }
        if self.pr.yields {
            kinds.push(5);
        }
        if self.pr.wake_faults {
            kinds.push(6);
        }
        if self.pr.notify {
            kinds.push(7);
        }
        if self.pr.chan {
            kinds.extend([8, 8]);
        }
        if self.pr.park {
            kinds.push(6);
        }
        if self.pr.condvar {
            kinds.extend([9, 10]);
        }
        if kinds.is_empty() {
            return None;
        }
        let k = *self.rng.pick(&kinds);
        Some(match k {
            0 => Op::Load { a: self.rng.below(self.n_atomics) as u8, o: if self.pr.palette_sc_only { MO::Sc } else { pick_load_ord(self.rng, Palette::All) } },
            1 => Op::Store { a: self.rng.below(self.n_atomics) as u8, v: self.vs.constant(), o: if self.pr.palette_sc_only { MO::Sc } else { pick_store_ord(self.rng, Palette::All) } },
            2 => {
                let a = self.rng.below(self.n_atomics) as u8;
                let o = self.ord();
                match self.vs.bit() {
                    Some(b) => Op::FetchAdd { a, v: b, o: if o == MO::Rlx || o == MO::Sc { o } else { MO::AcqRel } },
                    None => Op::Swap { a, v: self.vs.constant(), o: MO::Sc },
                }
            }
            3 => Op::CRead { c: self.rng.below(self.n_cells) as u8 },
            4 => Op::CWrite { c: self.rng.below(self.n_cells) as u8, v: self.vs.constant() },
            5 => Op::Yield,
            6 => {
                let mut u = self.rng.below(self.nt);
                if u == t {
                    u = (u + 1) % self.nt;
                }
                Op::Unpark { t: u as u8 }
            }
            7 => Op::NNotify { n: 0 },
            8 => Op::Send { c: 0, v: self.vs.constant() },
            9 => Op::CvOne { c: 0 },
            _ => Op::CvAll { c: 0 },
        })
    }

    fn block(&mut self, t: usize, out: &mut Vec<Op>) {
        let mut kinds: Vec<u8> = vec![0];
        if self.pr.mutex > 0 {
            kinds.extend([1, 1, 1]);
        }
        if self.pr.rwlock {
            kinds.extend([2, 3]);
        }
        if self.pr.condvar {
            kinds.extend([4, 4]);
        }
        if self.pr.notify && t == self.nwait_thread {
            kinds.extend([5, 5]);
        }
        if self.pr.chan && t == self.rx_thread {
            kinds.extend([6, 6, 6]);
        }
        if self.pr.park {
            kinds.extend([7, 7]);
        }
        let k = *self.rng.pick(&kinds);
        match k {
            0 => {
                if let Some(op) = self.simple_op(t) {
                    out.push(op);
                    self.total += 1;
                }
            }
            1 if self.pr.unwind_sections && self.rng.chance(1, 3) => {
                let m = self.rng.below(self.pr.mutex) as u8;
                out.push(Op::UnwindLock { m });
                self.total += 1;
            }
            1 => {
                // critical section on a mutex (possibly nested with a second one)
                let m = self.rng.below(self.pr.mutex) as u8;
                let try_ = self.pr.try_ops && self.rng.chance(1, 3);
                out.push(if try_ { Op::TryLock { m } } else { Op::Lock { m } });
                let n = self.rng.range(0, 2);
                for _ in 0..n {
                    if self.pr.mutex > 1 && self.rng.chance(1, 4) {
                        let m2 = (m + 1) % self.pr.mutex as u8;
                        out.push(Op::Lock { m: m2 });
                        if let Some(op) = self.simple_op(t) {
                            out.push(op);
                        }
                        out.push(Op::Unlock { m: m2 });
                        self.total += 3;
                    } else if let Some(op) = self.simple_op(t) {
                        out.push(op);
                        self.total += 1;
                    }
                }
                out.push(Op::Unlock { m });
                self.total += 2;
            }
            2 => {
                let try_ = self.pr.try_ops && self.rng.chance(1, 3);
                out.push(if try_ { Op::TryRLock { l: 0 } } else { Op::RLock { l: 0 } });
                if self.pr.cells && self.rng.chance(2, 3) {
                    out.push(Op::CRead { c: self.rng.below(self.n_cells) as u8 });
                } else if let Some(op) = self.simple_op(t) {
                    out.push(op);
                }
                out.push(Op::RUnlock { l: 0 });
                self.total += 3;
            }
            3 => {
                let try_ = self.pr.try_ops && self.rng.chance(1, 3);
                out.push(if try_ { Op::TryWLock { l: 0 } } else { Op::WLock { l: 0 } });
                if self.pr.cells && self.rng.chance(2, 3) {
                    out.push(Op::CWrite { c: self.rng.below(self.n_cells) as u8, v: self.vs.constant() });
                } else if let Some(op) = self.simple_op(t) {
                    out.push(op);
                }
                out.push(Op::WUnlock { l: 0 });
                self.total += 3;
            }
            4 => {
                // condvar wait under its mutex (no predicate loop: lost wake-ups are intended)
                out.push(Op::Lock { m: 0 });
                if self.rng.chance(1, 3) {
                    if let Some(op) = self.simple_op(t) {
                        out.push(op);
                    }
                }
                out.push(Op::CvWait { c: 0, m: 0 });
                if self.rng.chance(1, 3) {
                    if let Some(op) = self.simple_op(t) {
                        out.push(op);
                    }
                }
                out.push(Op::Unlock { m: 0 });
                self.total += 3;
            }
            5 => {
                out.push(Op::NWait { n: 0 });
                self.total += 1;
            }
            6 => {
                out.push(if self.pr.try_ops && self.rng.chance(1, 3) { Op::TryRecv { c: 0 } } else { Op::Recv { c: 0 } });
                self.total += 1;
            }
            _ => {
                out.push(Op::Park);
                self.total += 1;
            }
        }
    }
}

pub fn gen_sync(rng: &mut Rng, pr: &SyncProfile) -> Program {
    let nt = pr.spawned + 1;
    let n_atomics = if pr.atomics { rng.range(1, 2) } else { 0 };
    let n_cells = if pr.cells { rng.range(1, 2) } else { 0 };
    let rx_thread = rng.below(nt);
    let nwait_thread = rng.below(nt);
    let mut g = SyncGen { rng, pr: pr.clone(), vs: ValueSrc::new(), n_atomics, n_cells, nt, rx_thread, nwait_thread, total: 0 };
    let mut bodies: Vec<Vec<Op>> = vec![Vec::new(); nt];
    let first = if pr.main_participates { 0 } else { 1 };
    for t in first..nt {
        let nb = g.rng.range(1, pr.max_blocks);
        for _ in 0..nb {
            if g.total >= pr.max_total {
                break;
            }
            let mut out = Vec::new();
            g.block(t, &mut out);
            bodies[t].extend(out);
        }
    }
    let mut p = Program {
        atomics: vec![0; n_atomics],
        n_mutex: pr.mutex as u8,
        n_rwlock: pr.rwlock as u8,
        n_condvar: pr.condvar as u8,
        n_notify: pr.notify as u8,
        n_chan: pr.chan as u8,
        n_cell: n_cells as u8,
        ..Default::default()
    };
    p.threads = vec![Vec::new(); nt];
    for t in 1..nt {
        p.threads[0].push(Op::Spawn { t: t as u8 });
    }
    p.threads[0].extend(std::mem::take(&mut bodies[0]));
    for t in 1..nt {
        if pr.join_all || g.rng.chance(1, 2) {
            p.threads[0].push(Op::Join { t: t as u8 });
        }
    }
    if pr.final_reads && pr.join_all {
        for a in 0..n_atomics {
            p.threads[0].push(Op::Load { a: a as u8, o: MO::Sc });
        }
        if pr.chan && rx_thread == 0 {
            p.threads[0].push(Op::TryRecv { c: 0 });
        }
    }
    for t in 1..nt {
        p.threads[t] = std::mem::take(&mut bodies[t]);
    }
    p
}

// ------------------------------------------------------------------------------------------
// race family (C04): non-atomic accesses + synchronisation idioms

pub fn gen_race(rng: &mut Rng) -> Program {
    let mut vs = ValueSrc::new();
    let spawned = rng.range(1, 3);
    let nt = spawned + 1;
    let pal = *rng.pick(&[Palette::RlxOnly, Palette::RelAcq, Palette::RelAcq, Palette::RelAcq, Palette::All]);
    let n_flags = rng.range(1, 2);
    let use_mutex = rng.chance(1, 3);
    let use_chan = rng.chance(1, 4);
    let use_park = rng.chance(1, 5);
    let use_atomic_na = rng.chance(1, 5);
    let mut p = Program {
        atomics: vec![0; n_flags + use_atomic_na as usize],
        n_mutex: use_mutex as u8,
        n_chan: use_chan as u8,
        n_cell: 1,
        ..Default::default()
    };
    let na_atomic = n_flags as u8; // index of the atomic accessed non-atomically
    p.threads = vec![Vec::new(); nt];
    // a chain: T1 writes the cell and publishes through flag0; T2 (optional hop) forwards flag0 -> flag1;
    // the last thread waits for the flag and reads/writes the cell. Orderings are random, so the chain
    // is sometimes properly synchronised and sometimes not.
    let mut bodies: Vec<Vec<Op>> = vec![Vec::new(); nt];
    let access = |rng: &mut Rng, vs: &mut ValueSrc| -> Op {
        if use_atomic_na && rng.chance(1, 2) {
            if rng.chance(1, 2) {
                Op::AWithMut { a: na_atomic, v: vs.constant() }
            } else {
                Op::AUnsyncLoad { a: na_atomic }
            }
        } else if rng.chance(1, 2) {
            Op::CWrite { c: 0, v: vs.constant() }
        } else {
            Op::CRead { c: 0 }
        }
    };
    let order: Vec<usize> = {
        let mut v: Vec<usize> = (0..nt).collect();
        rng.shuffle(&mut v);
        v
    };
    let producer = order[0];
    // producer
    bodies[producer].push(access(rng, &mut vs));
    let mut prev_val: Vec<Option<(u8, u64)>> = Vec::new(); // (flag, value) to wait for per hop
    let hops = nt - 1;
    let mut published: Option<(u8, u64)> = None;
    for h in 0..hops {
        let from = order[h];
        let to = order[h + 1];
        // how does `from` hand over to `to`?
        let how = {
            let mut ks = vec![0u8, 0, 0];
            let already_locks = |b: &Vec<Op>| b.iter().any(|o| matches!(o, Op::Lock { .. }));
            if use_mutex && !already_locks(&bodies[from]) && !already_locks(&bodies[to]) {
                ks.push(1);
            }
            if use_chan && h == 0 {
                ks.push(2);
            }
            if use_park {
                ks.push(3);
            }
            *rng.pick(&ks)
        };
        match how {
            0 => {
                // atomic flag
                let f = (h % n_flags) as u8;
                let v = vs.constant();
                if pal != Palette::RlxOnly && rng.chance(1, 4) {
                    bodies[from].push(Op::Fence { o: *rng.pick(&[MO::Rel, MO::AcqRel, MO::Sc]) });
                    bodies[from].push(Op::Store { a: f, v, o: MO::Rlx });
                } else if rng.chance(1, 5) {
                    bodies[from].push(Op::Swap { a: f, v, o: pick_rmw_ord(rng, pal) });
                } else {
                    bodies[from].push(Op::Store { a: f, v, o: pick_store_ord(rng, pal) });
                }
                let o = pick_load_ord(rng, pal);
                if rng.chance(1, 4) {
                    // observe the flag through a compare_exchange (succeeding or failing), with
                    // independently drawn success / failure orderings
                    let e = if rng.chance(1, 2) { v } else { v + 1 };
                    let so = pick_rmw_ord(rng, if pal == Palette::RlxOnly { Palette::RelAcq } else { pal });
                    let fo = *rng.pick(&[MO::Rlx, MO::Rlx, MO::Acq]);
                    bodies[to].push(Op::Cas { a: f, e, n: vs.constant(), so, fo });
                } else {
                    bodies[to].push(Op::Load { a: f, o });
                }
                let pc = (bodies[to].len() - 1) as u8;
                let fence_after = pal != Palette::RlxOnly && rng.chance(1, 4);
                if fence_after {
                    bodies[to].push(Op::Fence { o: *rng.pick(&[MO::Acq, MO::AcqRel, MO::Sc]) });
                }
                published = Some((pc, v));
            }
            1 => {
                // lock hand-over: both sides access under the mutex (always ordered)
                let a1 = bodies[from].pop();
                bodies[from].push(Op::Lock { m: 0 });
                if let Some(a) = a1 {
                    bodies[from].push(a);
                }
                bodies[from].push(Op::Unlock { m: 0 });
                bodies[to].push(Op::Lock { m: 0 });
                bodies[to].push(access(rng, &mut vs));
                bodies[to].push(Op::Unlock { m: 0 });
                published = None;
                prev_val.push(None);
                continue;
            }
            2 => {
                let v = vs.constant();
                bodies[from].push(Op::Send { c: 0, v });
                bodies[to].push(Op::Recv { c: 0 });
                let pc = (bodies[to].len() - 1) as u8;
                published = Some((pc, v));
            }
            _ => {
                bodies[from].push(Op::Unpark { t: to as u8 });
                bodies[to].push(Op::Park);
                published = None;
                bodies[to].push(access(rng, &mut vs));
                prev_val.push(None);
                continue;
            }
        }
        // consumer side of this hop: act only if the value was observed
        if let Some((pc, v)) = published {
            let is_last = h + 1 == hops;
            if is_last || rng.chance(1, 2) {
                bodies[to].push(Op::If { pc, eq: v, then: Box::new(access(rng, &mut vs)) });
            }
            if !is_last {
                // forward: the next hop's publication is conditional too
                // (emitted by the next loop iteration unconditionally; keeping it simple)
            }
        }
        prev_val.push(published);
    }
    // occasionally an extra unsynchronised access somewhere
    if rng.chance(1, 5) {
        let t = rng.below(nt);
        bodies[t].push(access(rng, &mut vs));
    }
    for t in 1..nt {
        p.threads[0].push(Op::Spawn { t: t as u8 });
    }
    // main's body is placed after the spawns: shift the pcs its `If`s refer to
    for op in bodies[0].iter_mut() {
        if let Op::If { pc, .. } = op {
            *pc += spawned as u8;
        }
    }
    p.threads[0].extend(std::mem::take(&mut bodies[0]));
    for t in 1..nt {
        p.threads[0].push(Op::Join { t: t as u8 });
    }
    if rng.chance(1, 3) {
        p.threads[0].push(access(rng, &mut vs));
    }
    for t in 1..nt {
        p.threads[t] = std::mem::take(&mut bodies[t]);
    }
    p
}

// ------------------------------------------------------------------------------------------
// Arc / leak family (C10, C11)

pub fn gen_arc(rng: &mut Rng, leaky: bool) -> Program {
    let mut vs = ValueSrc::new();
    // most programs are tiny (one Arc, one op per thread): every handle op is a scheduling point,
    // and the dependence rules between clone / drop / inspect show with three actors and one op each
    let tiny = rng.chance(3, 5);
    let spawned = if tiny { 2 } else { rng.range(1, 3) };
    let nt = spawned + 1;
    let n_arcs = if tiny { 1 } else { rng.range(1, 2) };
    let with_atomic = rng.chance(1, 2);
    let with_track = leaky && rng.chance(1, 2);
    let with_alloc = leaky && rng.chance(1, 3);
    let with_chan = leaky && rng.chance(1, 4);
    let mut p = Program {
        atomics: if with_atomic { vec![0] } else { vec![] },
        n_track: with_track as u8 * 2,
        n_block: with_alloc as u8,
        n_chan: with_chan as u8,
        ..Default::default()
    };
    for _ in 0..n_arcs {
        let mut owners = Vec::new();
        for t in 1..nt {
            if tiny || rng.chance(2, 3) {
                owners.push(t as u8);
            }
        }
        p.arcs.push(owners);
    }
    p.threads = vec![Vec::new(); nt];
    let mut bodies: Vec<Vec<Op>> = vec![Vec::new(); nt];
    let mut returned_max = vec![0usize; n_arcs];
    for t in 0..nt {
        let n = if tiny { 1 } else { rng.range(1, 4) };
        let mut extra_handles = vec![0usize; n_arcs];
        for _ in 0..n {
            let r = rng.below(n_arcs) as u8;
            let k = rng.below(if leaky { 16 } else { 12 });
            let op = match k {
                0 | 1 => {
                    extra_handles[r as usize] += 1;
                    Op::ArcClone { r }
                }
                2 | 3 => Op::ArcDrop { r },
                4 | 5 => Op::ArcCount { r },
                6 => Op::ArcGetMut { r },
                7 => Op::ArcTryUnwrap { r },
                8 => Op::ArcRawRoundTrip { r },
                9 => {
                    extra_handles[r as usize] += 1;
                    Op::ArcIncStrong { r }
                }
                10 => Op::ArcDecStrong { r },
                11 => {
                    if with_atomic {
                        if rng.chance(1, 2) {
                            Op::Load { a: 0, o: MO::Sc }
                        } else {
                            Op::Store { a: 0, v: vs.constant(), o: MO::Sc }
                        }
                    } else {
                        Op::ArcCount { r }
                    }
                }
                12 => Op::ArcForget { r },
                13 if with_track => {
                    let k = rng.below(2) as u8;
                    if rng.chance(1, 2) {
                        Op::TrackNew { k }
                    } else {
                        Op::TrackDrop { k }
                    }
                }
                14 if with_alloc => {
                    if rng.chance(1, 2) {
                        Op::Alloc { k: 0 }
                    } else {
                        Op::Dealloc { k: 0 }
                    }
                }
                15 if with_chan => Op::Send { c: 0, v: vs.constant() },
                _ => Op::ArcCount { r },
            };
            bodies[t].push(op);
        }
        // conditional release: only the winner of a CAS releases
        if leaky && with_atomic && rng.chance(1, 3) {
            bodies[t].push(Op::Cas { a: 0, e: 0, n: vs.constant(), so: MO::Sc, fo: MO::Sc });
            let pc = (bodies[t].len() - 1) as u8;
            let r = rng.below(n_arcs) as u8;
            bodies[t].push(Op::If { pc, eq: 0, then: Box::new(Op::ArcDrop { r }) });
        }
        // release everything this thread may still hold (surplus drops are no-ops), or hand the
        // handles back to main (which collects and drops them after the joins)
        let skip_release = leaky && rng.chance(1, 4);
        if t != 0 && !skip_release && rng.chance(1, 2) {
            for r in 0..n_arcs {
                bodies[t].push(Op::ArcReturn { r: r as u8 });
                returned_max[r] += 1 + extra_handles[r];
            }
        } else if !skip_release {
            for r in 0..n_arcs {
                let owned = t == 0 || p.arcs[r].contains(&(t as u8));
                let n_drop = owned as usize + extra_handles[r];
                for _ in 0..n_drop {
                    bodies[t].push(Op::ArcDrop { r: r as u8 });
                }
            }
        }
    }
    // balance track / alloc in the non-leaky tail of leaky programs sometimes
    let spawn_n = nt - 1;
    for t in 1..nt {
        p.threads[0].push(Op::Spawn { t: t as u8 });
    }
    for op in bodies[0].iter_mut() {
        if let Op::If { pc, .. } = op {
            *pc += spawn_n as u8;
        }
    }
    // main's own body runs between spawn and join or after the joins
    let main_body = std::mem::take(&mut bodies[0]);
    if tiny || rng.chance(1, 2) {
        p.threads[0].extend(main_body);
        for t in 1..nt {
            p.threads[0].push(Op::Join { t: t as u8 });
        }
    } else {
        let mut mb = main_body;
        for op in mb.iter_mut() {
            if let Op::If { pc, .. } = op {
                *pc += spawn_n as u8;
            }
        }
        for t in 1..nt {
            p.threads[0].push(Op::Join { t: t as u8 });
        }
        p.threads[0].extend(mb);
    }
    if with_chan && rng.chance(1, 2) {
        p.threads[0].push(Op::TryRecv { c: 0 });
    }
    // main picks up what the joined threads handed back and drops it
    for r in 0..n_arcs {
        if returned_max[r] > 0 {
            p.threads[0].push(Op::ArcCollect { r: r as u8 });
            for _ in 0..returned_max[r] {
                p.threads[0].push(Op::ArcDrop { r: r as u8 });
            }
        }
    }
    for t in 1..nt {
        p.threads[t] = std::mem::take(&mut bodies[t]);
    }
    p
}

/// More stores to one location than loom's history window (C14/C13 only: the completeness
/// properties exclude this regime, termination and non-repetition do not).
pub fn gen_many_stores(rng: &mut Rng) -> Program {
    let mut vs = ValueSrc::new();
    let mut p = Program { atomics: vec![0], ..Default::default() };
    let n_main = rng.range(5, 9);
    let n_other = rng.range(0, 2);
    let mut t0 = vec![Op::Spawn { t: 1 }];
    for _ in 0..n_main {
        t0.push(Op::Store { a: 0, v: vs.constant(), o: *rng.pick(&[MO::Rlx, MO::Rel, MO::Sc]) });
    }
    let mut t1 = Vec::new();
    for _ in 0..n_other {
        t1.push(Op::Store { a: 0, v: vs.constant(), o: MO::Rlx });
    }
    for _ in 0..rng.range(1, 2) {
        t1.push(Op::Load { a: 0, o: *rng.pick(&[MO::Rlx, MO::Acq]) });
    }
    if rng.chance(1, 2) {
        t0.push(Op::Join { t: 1 });
        t0.push(Op::Load { a: 0, o: MO::Rlx });
    } else {
        t0.insert(1, Op::Join { t: 1 });
        t0.push(Op::Load { a: 0, o: MO::Rlx });
    }
    p.threads = vec![t0, t1];
    p
}

/// Predicate loops around the waiting primitives, the way they are really used:
/// `while flag.load() != v { guard = cv.wait(guard) }` and `while flag.load() != v { notify.wait() }`,
/// with notifiers that publish correctly, publish without the mutex (lost wake-ups are then real
/// deadlocks), publish in two stages, notify one of two waiters, or notify before publishing.
pub fn gen_wait_loops(rng: &mut Rng) -> Program {
    let mut vs = ValueSrc::new();
    let pal = *rng.pick(&[Palette::RlxOnly, Palette::RelAcq, Palette::All, Palette::All]);
    let v = vs.constant();
    let u = vs.constant();
    let data = vs.constant();
    let use_cell = rng.chance(1, 3);
    let mut p = Program { atomics: vec![0, 0], n_cell: if use_cell { 1 } else { 0 }, ..Default::default() };
    let publish = |rng: &mut Rng| -> Op {
        if use_cell {
            Op::CWrite { c: 0, v: data }
        } else {
            Op::Store { a: 1, v: data, o: pick_store_ord(rng, pal) }
        }
    };
    let consume = |rng: &mut Rng| -> Op {
        if use_cell {
            Op::CRead { c: 0 }
        } else {
            Op::Load { a: 1, o: pick_load_ord(rng, pal) }
        }
    };
    let mut threads: Vec<Vec<Op>> = Vec::new();
    if rng.chance(3, 5) {
        // ---- condvar
        p.n_mutex = 1;
        p.n_condvar = 1;
        let n_waiters = if rng.chance(1, 3) { 2 } else { 1 };
        for _ in 0..n_waiters {
            let mut w = vec![Op::Lock { m: 0 }, Op::CvWaitUntil { c: 0, m: 0, a: 0, o: pick_load_ord(rng, pal), v }];
            if rng.chance(2, 3) {
                w.push(consume(rng));
            }
            w.push(Op::Unlock { m: 0 });
            threads.push(w);
        }
        let mut n = Vec::new();
        if rng.chance(2, 3) {
            n.push(publish(rng));
        }
        let two_stage = rng.chance(1, 4);
        let stages: Vec<u64> = if two_stage { vec![u, v] } else { vec![v] };
        for (i, val) in stages.iter().enumerate() {
            let locked = rng.chance(2, 3);
            let notify_inside = locked && rng.chance(1, 2);
            let notify = if n_waiters == 2 && rng.chance(2, 3) || rng.chance(1, 3) { Op::CvAll { c: 0 } } else { Op::CvOne { c: 0 } };
            if locked {
                n.push(Op::Lock { m: 0 });
            }
            n.push(Op::Store { a: 0, v: *val, o: pick_store_ord(rng, pal) });
            if notify_inside {
                n.push(notify.clone());
            }
            if locked {
                n.push(Op::Unlock { m: 0 });
            }
            if !notify_inside {
                n.push(notify);
            }
            if i == 0 && two_stage && rng.chance(1, 3) {
                n.push(Op::Yield);
            }
        }
        if n_waiters == 2 && rng.chance(1, 3) {
            n.push(Op::CvOne { c: 0 });
        }
        threads.push(n);
    } else {
        // ---- Notify (a single waiting thread)
        p.n_notify = 1;
        let mut w = vec![Op::NWaitUntil { n: 0, a: 0, o: pick_load_ord(rng, pal), v }];
        if rng.chance(2, 3) {
            w.push(consume(rng));
        }
        threads.push(w);
        let mut n = Vec::new();
        if rng.chance(2, 3) {
            n.push(publish(rng));
        }
        match rng.below(5) {
            0 => {
                // two stages, a notification each
                n.push(Op::Store { a: 0, v: u, o: pick_store_ord(rng, pal) });
                n.push(Op::NNotify { n: 0 });
                n.push(Op::Store { a: 0, v, o: pick_store_ord(rng, pal) });
                n.push(Op::NNotify { n: 0 });
            }
            1 => {
                // two stores, one notification
                n.push(Op::Store { a: 0, v: u, o: pick_store_ord(rng, pal) });
                n.push(Op::Store { a: 0, v, o: pick_store_ord(rng, pal) });
                n.push(Op::NNotify { n: 0 });
            }
            2 => {
                // notification first
                n.push(Op::NNotify { n: 0 });
                n.push(Op::Store { a: 0, v, o: pick_store_ord(rng, pal) });
                if rng.chance(1, 2) {
                    n.push(Op::NNotify { n: 0 });
                }
            }
            _ => {
                n.push(Op::Store { a: 0, v, o: pick_store_ord(rng, pal) });
                n.push(Op::NNotify { n: 0 });
                if rng.chance(1, 3) {
                    n.push(Op::NNotify { n: 0 });
                }
            }
        }
        threads.push(n);
        if rng.chance(1, 4) {
            // a second notifier
            threads.push(vec![Op::NNotify { n: 0 }]);
        }
    }
    // who is main?
    let main_role = rng.below(threads.len() + 1);
    let mut t0: Vec<Op> = Vec::new();
    let mut others: Vec<Vec<Op>> = Vec::new();
    let mut main_body = None;
    for (i, th) in threads.into_iter().enumerate() {
        if i == main_role {
            main_body = Some(th);
        } else {
            others.push(th);
        }
    }
    for i in 0..others.len() {
        t0.push(Op::Spawn { t: (i + 1) as u8 });
    }
    if let Some(b) = main_body {
        t0.extend(b);
    }
    for i in 0..others.len() {
        t0.push(Op::Join { t: (i + 1) as u8 });
    }
    p.threads = vec![t0];
    p.threads.extend(others);
    p
}

/// A thread that yields right after it released a lock, while another thread takes the same lock
/// and keeps it until the yielder has made progress (joined, or set a flag): no deadlock.
pub fn gen_yield_after_lock(rng: &mut Rng) -> Program {
    let mut vs = ValueSrc::new();
    let use_rw = rng.chance(1, 3);
    let mut p = Program { atomics: vec![0], n_mutex: 1, n_rwlock: if use_rw { 1 } else { 0 }, ..Default::default() };
    let (acq, rel, acq2, rel2): (Op, Op, Op, Op) = if use_rw {
        if rng.chance(1, 2) {
            (Op::WLock { l: 0 }, Op::WUnlock { l: 0 }, Op::RLock { l: 0 }, Op::RUnlock { l: 0 })
        } else {
            (Op::RLock { l: 0 }, Op::RUnlock { l: 0 }, Op::WLock { l: 0 }, Op::WUnlock { l: 0 })
        }
    } else {
        (Op::Lock { m: 0 }, Op::Unlock { m: 0 }, Op::Lock { m: 0 }, Op::Unlock { m: 0 })
    };
    // the yielder is main: it uses the lock once, only then starts the holder (so the holder
    // cannot get in its way), yields, and publishes what the holder waits for
    let flag = vs.constant();
    let mut t0 = vec![acq, rel, Op::Spawn { t: 1 }, Op::Yield];
    if rng.chance(1, 2) {
        t0.push(Op::Yield);
    }
    t0.push(Op::Store { a: 0, v: flag, o: MO::Sc });
    t0.push(Op::Join { t: 1 });
    let holder = vec![acq2, Op::Await { a: 0, o: MO::Sc, v: flag }, rel2];
    p.threads = vec![t0, holder];
    p
}

/// A failed `try_lock` (or `try_read` / `try_write`) is not a hand-over: a writer publishes a cell
/// only through "lock; unlock; relaxed flag", a holder sits in its critical section, an observer
/// that has seen the flag fails to acquire and touches the cell - a data race.
pub fn gen_trylock_no_handover(rng: &mut Rng) -> Program {
    let mut vs = ValueSrc::new();
    let use_rw = rng.chance(1, 3);
    let mut p = Program { atomics: vec![0], n_mutex: 1, n_rwlock: if use_rw { 1 } else { 0 }, n_cell: 1, n_chan: 1, ..Default::default() };
    let flag = vs.constant();
    let (lock, unlock, try_, hold, release): (Op, Op, Op, Op, Op) = if use_rw {
        (Op::WLock { l: 0 }, Op::WUnlock { l: 0 }, if rng.chance(1, 2) { Op::TryRLock { l: 0 } } else { Op::TryWLock { l: 0 } }, Op::WLock { l: 0 }, Op::WUnlock { l: 0 })
    } else {
        (Op::Lock { m: 0 }, Op::Unlock { m: 0 }, Op::TryLock { m: 0 }, Op::Lock { m: 0 }, Op::Unlock { m: 0 })
    };
    let flag_ord = if rng.chance(2, 3) { MO::Rlx } else { MO::Rel };
    let writer = vec![Op::CWrite { c: 0, v: vs.constant() }, lock, unlock, Op::Store { a: 0, v: flag, o: flag_ord }];
    // (a scheduling point inside the critical section, so that the observer can run meanwhile)
    // (the holder blocks inside its critical section until the observer has made its attempt:
    // loom only runs another thread inside a critical section if the holder cannot continue, K6)
    let holder = vec![hold, Op::Recv { c: 0 }, release];
    let wait_ord = if flag_ord == MO::Rel && rng.chance(1, 2) { MO::Acq } else { MO::Rlx };
    let access = if rng.chance(1, 2) { Op::CRead { c: 0 } } else { Op::CWrite { c: 0, v: vs.constant() } };
    // (a successful attempt is released again)
    let undo = match try_ {
        Op::TryRLock { l } => Op::RUnlock { l },
        Op::TryWLock { l } => Op::WUnlock { l },
        _ => Op::Unlock { m: 0 },
    };
    let observer = vec![
        Op::Await { a: 0, o: wait_ord, v: flag },
        try_,
        Op::If { pc: 1, eq: 0, then: Box::new(access) },
        Op::If { pc: 1, eq: 1, then: Box::new(undo) },
        Op::Send { c: 0, v: vs.constant() },
    ];
    // main is the writer: the observer is started before it writes (no happens-before from the
    // write), the holder after it has released the lock (no contention with the writer)
    let mut t0 = vec![Op::Spawn { t: 1 }];
    t0.extend(writer);
    t0.push(Op::Spawn { t: 2 });
    t0.push(Op::Join { t: 1 });
    t0.push(Op::Join { t: 2 });
    p.threads = vec![t0, observer, holder];
    p
}

/// Try-acquires whose results are a function of the order of the acquire operations (see
/// `checks::try_acquires_decidable`): one thread tries once or twice (a successful attempt writes
/// a cell and releases), holders either run a critical section without scheduling point or block
/// inside it on a channel the trying thread feeds only after its last attempt. Completeness IS
/// demanded here: each holder-before-try / try-before-holder order has its own outcome.
pub fn gen_try_decidable(rng: &mut Rng) -> Program {
    let mut vs = ValueSrc::new();
    let use_rw = rng.chance(1, 3);
    let n_blocked = rng.below(3);
    let n_atomic = if n_blocked == 0 { rng.range(1, 2) } else { rng.below(3 - n_blocked) };
    let mut p = Program { atomics: vec![0], n_mutex: if use_rw { 0 } else { 1 }, n_rwlock: if use_rw { 1 } else { 0 }, n_cell: 1, n_chan: n_blocked as u8, ..Default::default() };
    // role bodies
    let mut roles: Vec<Vec<Op>> = Vec::new();
    let mut trier: Vec<Op> = Vec::new();
    let n_tries = rng.range(1, 2);
    for i in 0..n_tries {
        if i > 0 && rng.chance(1, 2) {
            trier.push(Op::Store { a: 0, v: vs.constant(), o: MO::Rlx });
        }
        let (try_, body, undo) = if use_rw {
            if rng.chance(1, 2) {
                (Op::TryRLock { l: 0 }, Op::CRead { c: 0 }, Op::RUnlock { l: 0 })
            } else {
                (Op::TryWLock { l: 0 }, Op::CWrite { c: 0, v: vs.constant() }, Op::WUnlock { l: 0 })
            }
        } else {
            (Op::TryLock { m: 0 }, Op::CWrite { c: 0, v: vs.constant() }, Op::Unlock { m: 0 })
        };
        let pc = trier.len() as u8;
        trier.push(try_);
        trier.push(Op::If { pc, eq: 1, then: Box::new(body) });
        trier.push(Op::If { pc, eq: 1, then: Box::new(undo) });
    }
    for c in 0..n_blocked {
        trier.push(Op::Send { c: c as u8, v: vs.constant() });
    }
    roles.push(trier);
    for i in 0..(n_blocked + n_atomic) {
        let (acq, body, rel) = if use_rw {
            if rng.chance(1, 2) {
                (Op::RLock { l: 0 }, Op::CRead { c: 0 }, Op::RUnlock { l: 0 })
            } else {
                (Op::WLock { l: 0 }, Op::CWrite { c: 0, v: vs.constant() }, Op::WUnlock { l: 0 })
            }
        } else {
            (Op::Lock { m: 0 }, Op::CWrite { c: 0, v: vs.constant() }, Op::Unlock { m: 0 })
        };
        let mut b = vec![acq];
        if i < n_blocked {
            if rng.chance(1, 2) {
                b.push(body);
                b.push(Op::Recv { c: i as u8 });
            } else {
                b.push(Op::Recv { c: i as u8 });
                if rng.chance(1, 2) {
                    b.push(body);
                }
            }
        } else {
            b.push(body);
            if rng.chance(1, 3) {
                b.insert(0, Op::Load { a: 0, o: MO::Rlx });
            }
        }
        b.push(rel);
        roles.push(b);
    }
    rng.shuffle(&mut roles);
    // main either only coordinates or plays the last role itself, after having started the others
    let main_plays = rng.chance(1, 2);
    let main_role = if main_plays { roles.pop() } else { None };
    let mut t0: Vec<Op> = Vec::new();
    for t in 1..=roles.len() {
        t0.push(Op::Spawn { t: t as u8 });
    }
    if let Some(r) = main_role {
        // (the `If`s of the trying role refer to their own thread's op indices)
        let base = t0.len() as u8;
        for op in r {
            t0.push(match op {
                Op::If { pc, eq, then } => Op::If { pc: pc + base, eq, then },
                o => o,
            });
        }
    }
    for t in 1..=roles.len() {
        t0.push(Op::Join { t: t as u8 });
    }
    // the final value of the cell, read under the lock
    if use_rw {
        t0.extend(vec![Op::RLock { l: 0 }, Op::CRead { c: 0 }, Op::RUnlock { l: 0 }]);
    } else {
        t0.extend(vec![Op::Lock { m: 0 }, Op::CRead { c: 0 }, Op::Unlock { m: 0 }]);
    }
    let mut threads = vec![t0];
    threads.extend(roles);
    p.threads = threads;
    p
}

/// Dropping a handle is a release, and an acquire only for the drop that brings the count to zero
/// (std: `fetch_sub(1, Release)`, then `fence(Acquire)` in the last one): a thread publishes data,
/// drops its handle and raises a relaxed flag; a second thread that saw the flag drops a handle
/// that is NOT the last one (main keeps its own until both are joined) and then looks at the data.
/// Nothing orders the two: the cell access is a race that must be reported, the relaxed load may
/// still return the initial value.
pub fn gen_arc_drop_order(rng: &mut Rng) -> Program {
    let mut vs = ValueSrc::new();
    let mut p = Program { atomics: vec![0, 0], n_cell: 1, arcs: vec![vec![1, 2]], ..Default::default() };
    let use_cell = rng.chance(1, 2);
    let flag = vs.constant();
    // (a release/acquire flag orders everything: the control variant)
    let synced = rng.chance(1, 4);
    let (so, lo) = if synced { (MO::Rel, MO::Acq) } else { (MO::Rlx, MO::Rlx) };
    let mut t1 = vec![if use_cell { Op::CWrite { c: 0, v: vs.constant() } } else { Op::Store { a: 1, v: vs.constant(), o: MO::Rlx } }];
    if rng.chance(1, 3) {
        t1.push(Op::ArcClone { r: 0 });
        t1.push(Op::ArcDrop { r: 0 });
    }
    t1.push(Op::ArcDrop { r: 0 });
    t1.push(Op::Store { a: 0, v: flag, o: so });
    let mut t2 = vec![Op::Await { a: 0, o: lo, v: flag }];
    if rng.chance(1, 2) {
        t2.push(Op::ArcClone { r: 0 });
    }
    t2.push(Op::ArcDrop { r: 0 });
    t2.push(if use_cell { Op::CRead { c: 0 } } else { Op::Load { a: 1, o: MO::Rlx } });
    let (a, b) = if rng.chance(1, 2) { (t1, t2) } else { (t2, t1) };
    let mut t0 = vec![Op::Spawn { t: 1 }, Op::Spawn { t: 2 }, Op::Join { t: 1 }, Op::Join { t: 2 }, Op::ArcDrop { r: 0 }];
    if rng.chance(1, 2) {
        t0.push(if use_cell { Op::CRead { c: 0 } } else { Op::Load { a: 1, o: MO::Rlx } });
    }
    p.threads = vec![t0, a, b];
    p
}

/// One acquire fence after several relaxed loads of the same atomic: the fence synchronises with
/// every release store the thread has read from, not only the latest. Writers publish their own
/// cell (or relaxed data atomic) and release-store their own value to a shared flag; the reader
/// loads the flag several times, fences once and then reads the data of every writer whose value
/// it saw. (`cells`: data in UnsafeCells - a false race report shows a lost edge; otherwise relaxed
/// atomics - a stale read is an invalid execution.) One in four readers has no fence: then the
/// cell reads are real races.
pub fn gen_fence_multi(rng: &mut Rng, cells: bool) -> Program {
    let mut vs = ValueSrc::new();
    // (two writers: three stores and three loads on one location from four threads exceed the cap)
    let nw = 2;
    let mut p = Program { atomics: vec![0; if cells { 1 } else { 1 + nw }], n_cell: if cells { nw as u8 } else { 0 }, ..Default::default() };
    let fenced = !cells || !rng.chance(1, 4);
    let mut vals = Vec::new();
    let mut writers = Vec::new();
    for i in 0..nw {
        let v = vs.constant();
        vals.push(v);
        let data = if cells { Op::CWrite { c: i as u8, v: vs.constant() } } else { Op::Store { a: (1 + i) as u8, v: vs.constant(), o: MO::Rlx } };
        let publish = if rng.chance(1, 3) {
            vec![Op::Fence { o: MO::Rel }, Op::Store { a: 0, v, o: MO::Rlx }]
        } else {
            vec![Op::Store { a: 0, v, o: MO::Rel }]
        };
        let mut w = vec![data];
        w.extend(publish);
        writers.push(w);
    }
    let n_loads = if cells && rng.chance(1, 4) { 3 } else { 2 };
    let mut r: Vec<Op> = Vec::new();
    for _ in 0..n_loads {
        r.push(Op::Load { a: 0, o: MO::Rlx });
    }
    if fenced {
        r.push(Op::Fence { o: if rng.chance(3, 4) { MO::Acq } else { MO::AcqRel } });
    }
    for k in 0..n_loads {
        for i in 0..nw {
            let read = if cells { Op::CRead { c: i as u8 } } else { Op::Load { a: (1 + i) as u8, o: MO::Rlx } };
            r.push(Op::If { pc: k as u8, eq: vals[i], then: Box::new(read) });
        }
    }
    // the reader is a spawned thread (main only coordinates), placed at a random position
    let mut bodies = writers;
    let pos = rng.below(bodies.len() + 1);
    bodies.insert(pos, r);
    let mut t0 = Vec::new();
    for t in 1..=bodies.len() {
        t0.push(Op::Spawn { t: t as u8 });
    }
    for t in 1..=bodies.len() {
        t0.push(Op::Join { t: t as u8 });
    }
    let mut threads = vec![t0];
    threads.extend(bodies);
    p.threads = threads;
    p
}

/// A convoy: the holder blocks inside its critical section (on a channel fed by the thread that is
/// started last) so that two or three other threads are already blocked in their acquire when the
/// lock is released; each of them records its turn in a cell. A release has to make every waiter
/// runnable: whichever of them acquires next is a choice of the exploration, and each order has
/// its own final cell value.
pub fn gen_lock_convoy(rng: &mut Rng) -> Program {
    let mut vs = ValueSrc::new();
    let use_rw = rng.chance(1, 3);
    // the holder is main (it takes the lock after having started everybody) or the first thread
    let main_holds = rng.chance(2, 3);
    // (loom runs at most five threads)
    let nw = if main_holds && rng.chance(1, 5) { 3 } else { 2 };
    let mut p = Program { n_mutex: if use_rw { 0 } else { 1 }, n_rwlock: if use_rw { 1 } else { 0 }, n_cell: 1, n_chan: 1, ..Default::default() };
    let mut bodies: Vec<Vec<Op>> = Vec::new();
    for _ in 0..nw {
        bodies.push(if use_rw {
            if rng.chance(1, 3) {
                vec![Op::RLock { l: 0 }, Op::CRead { c: 0 }, Op::RUnlock { l: 0 }]
            } else {
                vec![Op::WLock { l: 0 }, Op::CRead { c: 0 }, Op::CWrite { c: 0, v: vs.constant() }, Op::WUnlock { l: 0 }]
            }
        } else {
            vec![Op::Lock { m: 0 }, Op::CRead { c: 0 }, Op::CWrite { c: 0, v: vs.constant() }, Op::Unlock { m: 0 }]
        });
    }
    let (acq, rel, fin_acq, fin_rel) = if use_rw {
        if rng.chance(1, 4) {
            (Op::RLock { l: 0 }, Op::RUnlock { l: 0 }, Op::RLock { l: 0 }, Op::RUnlock { l: 0 })
        } else {
            (Op::WLock { l: 0 }, Op::WUnlock { l: 0 }, Op::RLock { l: 0 }, Op::RUnlock { l: 0 })
        }
    } else {
        (Op::Lock { m: 0 }, Op::Unlock { m: 0 }, Op::Lock { m: 0 }, Op::Unlock { m: 0 })
    };
    // the holder gives way inside its critical section: blocked on a channel fed by the thread that
    // is started last, or by `yield_now` - loom then runs every other thread until it cannot
    // continue, so ALL waiters are blocked in their acquire at the release (the channel variant
    // also reaches orders in which a waiter has not arrived yet)
    let by_yield = rng.chance(1, 2);
    let holder = if by_yield {
        let w = if matches!(acq, Op::RLock { .. }) { Op::CRead { c: 0 } } else { Op::CWrite { c: 0, v: vs.constant() } };
        vec![acq, w, Op::Yield, rel]
    } else {
        vec![acq, Op::Recv { c: 0 }, rel]
    };
    let sender = vec![Op::Send { c: 0, v: vs.constant() }];
    let mut t0: Vec<Op> = Vec::new();
    let mut threads: Vec<Vec<Op>> = Vec::new();
    if !main_holds {
        threads.push(holder.clone());
    }
    threads.extend(bodies);
    if by_yield {
        p.n_chan = 0;
    } else {
        threads.push(sender);
    }
    for t in 1..=threads.len() {
        t0.push(Op::Spawn { t: t as u8 });
    }
    if main_holds {
        t0.extend(holder);
    }
    for t in 1..=threads.len() {
        t0.push(Op::Join { t: t as u8 });
    }
    t0.extend(vec![fin_acq, Op::CRead { c: 0 }, fin_rel]);
    let mut all = vec![t0];
    all.extend(threads);
    p.threads = all;
    p
}

/// park / unpark as message passing: the parked thread looks at data afterwards; one unparker
/// publishes before it unparks, another one unparks without publishing (so that returning from
/// `park` must synchronise with exactly the unpark that woke it, in every iteration anew).
pub fn gen_park_mp(rng: &mut Rng) -> Program {
    let mut vs = ValueSrc::new();
    let pal = *rng.pick(&[Palette::RlxOnly, Palette::RelAcq, Palette::All]);
    let mut p = Program { atomics: vec![0, 0], ..Default::default() };
    let n_unparkers = rng.range(1, 2);
    let waiter_is_main = rng.chance(2, 3);
    // (threads are numbered in spawn order; the waiter must exist before it can be unparked)
    let waiter: usize = if waiter_is_main { 0 } else { 1 };
    let mut w = vec![Op::Park];
    for _ in 0..rng.range(1, 2) {
        w.push(Op::Load { a: rng.below(2) as u8, o: pick_load_ord(rng, pal) });
    }
    let mut unparkers: Vec<Vec<Op>> = Vec::new();
    for i in 0..n_unparkers {
        let mut b = Vec::new();
        if i == 0 || rng.chance(1, 3) {
            for _ in 0..rng.range(1, 2) {
                b.push(Op::Store { a: rng.below(2) as u8, v: vs.constant(), o: pick_store_ord(rng, pal) });
            }
        }
        b.push(Op::Unpark { t: waiter as u8 });
        unparkers.push(b);
    }
    let mut t0 = Vec::new();
    if waiter_is_main {
        for i in 0..n_unparkers {
            t0.push(Op::Spawn { t: (i + 1) as u8 });
        }
        t0.extend(w);
        for i in 0..n_unparkers {
            t0.push(Op::Join { t: (i + 1) as u8 });
        }
        p.threads = vec![t0];
        p.threads.extend(unparkers);
    } else {
        for i in 0..=n_unparkers {
            t0.push(Op::Spawn { t: (i + 1) as u8 });
        }
        for i in 0..=n_unparkers {
            t0.push(Op::Join { t: (i + 1) as u8 });
        }
        p.threads = vec![t0];
        p.threads.push(w);
        p.threads.extend(unparkers);
    }
    p
}

/// Readers of an RwLock that must be able to overlap: each thread (after an optional write
/// section of its own) stores to its atomic and loads the other's inside a read section. Both
/// loads seeing the other store needs both read locks held at once.
pub fn gen_rw_overlap(rng: &mut Rng) -> Program {
    if rng.chance(1, 2) {
        return gen_rw_readers_then_writer(rng);
    }
    let mut vs = ValueSrc::new();
    let nt = rng.range(2, 3);
    let mut p = Program { atomics: vec![0; nt], n_rwlock: 1, ..Default::default() };
    let mut bodies: Vec<Vec<Op>> = Vec::new();
    for t in 0..nt {
        let mut b = Vec::new();
        if rng.chance(1, 2) {
            b.push(Op::WLock { l: 0 });
            b.push(Op::WUnlock { l: 0 });
        }
        b.push(Op::RLock { l: 0 });
        b.push(Op::Store { a: t as u8, v: vs.constant(), o: MO::Sc });
        b.push(Op::Load { a: ((t + 1) % nt) as u8, o: MO::Sc });
        b.push(Op::RUnlock { l: 0 });
        bodies.push(b);
    }
    let mut t0 = Vec::new();
    let main_takes_part = rng.chance(1, 2);
    let first = if main_takes_part { 1 } else { 0 };
    let n_spawned = nt - first;
    for i in 0..n_spawned {
        t0.push(Op::Spawn { t: (i + 1) as u8 });
    }
    if main_takes_part {
        t0.extend(bodies[0].clone());
    }
    for i in 0..n_spawned {
        t0.push(Op::Join { t: (i + 1) as u8 });
    }
    p.threads = vec![t0];
    for b in bodies.into_iter().skip(first) {
        p.threads.push(b);
    }
    p
}

/// Two or three readers whose sections may overlap, and a writer: each reader's section and the
/// writer's section exclude each other, so one of them sees the other's store - whichever reader
/// leaves first or last.
fn gen_rw_readers_then_writer(rng: &mut Rng) -> Program {
    let mut vs = ValueSrc::new();
    let n_readers = rng.range(2, 3);
    let mut p = Program { atomics: vec![0; n_readers + 1], n_rwlock: 1, ..Default::default() };
    let wloc = n_readers as u8;
    let mut threads: Vec<Vec<Op>> = Vec::new();
    for r in 0..n_readers {
        let mut b = vec![Op::RLock { l: 0 }];
        if r == 0 || rng.chance(1, 2) {
            b.push(Op::Store { a: r as u8, v: vs.constant(), o: MO::Rlx });
            b.push(Op::Load { a: wloc, o: MO::Rlx });
        }
        b.push(Op::RUnlock { l: 0 });
        threads.push(b);
    }
    let mut w = vec![Op::WLock { l: 0 }, Op::Store { a: wloc, v: vs.constant(), o: MO::Rlx }];
    for r in 0..n_readers {
        w.push(Op::Load { a: r as u8, o: MO::Rlx });
    }
    w.push(Op::WUnlock { l: 0 });
    threads.push(w);
    rng.shuffle(&mut threads);
    let mut t0 = Vec::new();
    for i in 0..threads.len() {
        t0.push(Op::Spawn { t: (i + 1) as u8 });
    }
    for i in 0..threads.len() {
        t0.push(Op::Join { t: (i + 1) as u8 });
    }
    p.threads = vec![t0];
    p.threads.extend(threads);
    p
}

/// Message passing through a channel: the sender writes a cell before each send; the receiver
/// takes the messages with a mix of `recv` and `try_recv` and reads the cell that belongs to the
/// message it got (each receive must synchronise with ITS send).
pub fn gen_chan_mp(rng: &mut Rng) -> Program {
    match rng.below(5) {
        0 => return gen_chan_drop_acquires(rng),
        1 => return gen_chan_send_vs_drop(rng),
        _ => {}
    }
    let mut vs = ValueSrc::new();
    let k = rng.range(2, 3);
    let mut p = Program { n_chan: 1, n_cell: k as u8, ..Default::default() };
    let mut sender = Vec::new();
    let mut vals = Vec::new();
    for i in 0..k {
        sender.push(Op::CWrite { c: i as u8, v: vs.constant() });
        let v = vs.constant();
        vals.push(v);
        sender.push(Op::Send { c: 0, v });
    }
    let mut recv = Vec::new();
    for i in 0..k {
        let pc = recv.len() as u8;
        if rng.chance(1, 2) {
            recv.push(Op::TryRecv { c: 0 });
        } else {
            recv.push(Op::Recv { c: 0 });
        }
        // whichever message arrived: read its cell
        let j = if rng.chance(3, 4) { i } else { rng.below(k) };
        recv.push(Op::If { pc, eq: vals[j], then: Box::new(Op::CRead { c: j as u8 }) });
    }
    match rng.below(3) {
        0 => {
            // receiver is main
            let mut t0 = vec![Op::Spawn { t: 1 }];
            t0.extend(recv);
            for op in t0.iter_mut() {
                if let Op::If { pc, .. } = op {
                    *pc += 1;
                }
            }
            t0.push(Op::Join { t: 1 });
            t0.push(Op::DropRx { c: 0 });
            p.threads = vec![t0, sender];
        }
        1 => {
            // sender is main
            let mut t0 = vec![Op::Spawn { t: 1 }];
            t0.extend(sender);
            t0.push(Op::Join { t: 1 });
            recv.push(Op::DropRx { c: 0 });
            p.threads = vec![t0, recv];
        }
        _ => {
            recv.push(Op::DropRx { c: 0 });
            p.threads = vec![vec![Op::Spawn { t: 1 }, Op::Spawn { t: 2 }, Op::Join { t: 1 }, Op::Join { t: 2 }], sender, recv];
        }
    }
    p
}

/// The receiver is dropped while a message is queued: the drop receives (drains) it, so what the
/// sender did before the send happens-before what the dropping thread does afterwards. The
/// dropping thread learns that the message is queued through a relaxed flag only.
fn gen_chan_drop_acquires(rng: &mut Rng) -> Program {
    let mut vs = ValueSrc::new();
    let mut p = Program { atomics: vec![0], n_chan: 1, n_cell: 1, ..Default::default() };
    let flag = vs.constant();
    let mut sender = vec![Op::CWrite { c: 0, v: vs.constant() }];
    let n = rng.range(1, 2);
    for _ in 0..n {
        sender.push(Op::Send { c: 0, v: vs.constant() });
    }
    sender.push(Op::Store { a: 0, v: flag, o: MO::Rlx });
    let mut dropper = vec![Op::Await { a: 0, o: MO::Rlx, v: flag }];
    if n == 2 && rng.chance(1, 2) {
        dropper.push(Op::Recv { c: 0 });
    }
    dropper.push(Op::DropRx { c: 0 });
    dropper.push(if rng.chance(1, 2) { Op::CRead { c: 0 } } else { Op::CWrite { c: 0, v: vs.constant() } });
    if rng.chance(1, 2) {
        let mut t0 = vec![Op::Spawn { t: 1 }];
        t0.extend(dropper);
        t0.push(Op::Join { t: 1 });
        p.threads = vec![t0, sender];
    } else {
        p.threads = vec![vec![Op::Spawn { t: 1 }, Op::Spawn { t: 2 }, Op::Join { t: 1 }, Op::Join { t: 2 }], sender, dropper];
    }
    p
}

/// A send racing with the drop of the receiver (which polls first, so that the two are dependent
/// operations for the exploration): whichever comes first, nothing is left in the channel.
fn gen_chan_send_vs_drop(rng: &mut Rng) -> Program {
    let mut vs = ValueSrc::new();
    let mut p = Program { n_chan: 1, ..Default::default() };
    let n = rng.range(1, 2);
    let mut sender = Vec::new();
    for _ in 0..n {
        sender.push(Op::Send { c: 0, v: vs.constant() });
    }
    let mut rx = Vec::new();
    for _ in 0..rng.range(1, 2) {
        rx.push(Op::TryRecv { c: 0 });
    }
    rx.push(Op::DropRx { c: 0 });
    if rng.chance(1, 2) {
        let mut t0 = vec![Op::Spawn { t: 1 }];
        t0.extend(rx);
        t0.push(Op::Join { t: 1 });
        p.threads = vec![t0, sender];
    } else {
        let mut t0 = vec![Op::Spawn { t: 1 }];
        t0.extend(sender);
        t0.push(Op::Join { t: 1 });
        p.threads = vec![t0, rx];
    }
    p
}

/// Message passing over a flag that is stored to more often than loom keeps stores (the ring of
/// the last 7): a writer alternates data writes and flag stores, a reader loads the flag and
/// acquires by load ordering or by fence, then looks at the data. `cell_data`: the data is a
/// non-atomic cell written once (race reports, C04), otherwise a relaxed atomic (validity, C03).
pub fn gen_many_stores_mp(rng: &mut Rng, cell_data: bool) -> Program {
    let mut vs = ValueSrc::new();
    let mut p = Program { atomics: vec![0, 0], n_cell: if cell_data { 1 } else { 0 }, ..Default::default() };
    let n = rng.range(5, 10);
    let mut w = Vec::new();
    let mut flags = Vec::new();
    let publish_at = rng.below(n);
    for i in 0..n {
        if cell_data {
            if i == publish_at {
                w.push(Op::CWrite { c: 0, v: vs.constant() });
            }
        } else if rng.chance(2, 3) {
            w.push(Op::Store { a: 1, v: vs.constant(), o: MO::Rlx });
        }
        let f = vs.constant();
        flags.push(f);
        let o = if rng.chance(1, 5) {
            MO::Rlx
        } else {
            MO::Rel
        };
        if rng.chance(1, 6) {
            w.push(Op::Fence { o: MO::Rel });
        }
        w.push(Op::Store { a: 0, v: f, o });
    }
    let mut r = Vec::new();
    let by_fence = rng.chance(2, 3);
    r.push(Op::Load { a: 0, o: if by_fence { MO::Rlx } else { MO::Acq } });
    if by_fence {
        r.push(Op::Fence { o: *rng.pick(&[MO::Acq, MO::AcqRel, MO::Sc]) });
    }
    if cell_data {
        // read the cell only if a flag at or after the publication was seen
        let k = publish_at + rng.below(n - publish_at);
        r.push(Op::If { pc: 0, eq: flags[k], then: Box::new(Op::CRead { c: 0 }) });
    } else {
        r.push(Op::Load { a: 1, o: MO::Rlx });
        if rng.chance(1, 2) {
            r.push(Op::Load { a: 0, o: MO::Rlx });
        }
    }
    if rng.chance(1, 2) {
        p.threads = vec![vec![Op::Spawn { t: 1 }, Op::Spawn { t: 2 }, Op::Join { t: 1 }, Op::Join { t: 2 }], w, r];
    } else {
        // the writer is main
        let mut t0 = vec![Op::Spawn { t: 1 }];
        t0.extend(w);
        t0.push(Op::Join { t: 1 });
        p.threads = vec![t0, r];
    }
    p
}

// ------------------------------------------------------------------------------------------
// await family (C18): one thread at a time spins with yield_now on an atomic written elsewhere

/// value no thread ever stores: an await on it can never succeed
pub const NEVER: u64 = 4095;

/// "two awaited stores": two writers store different values to one cell (unordered with each
/// other) and raise their own flags; the waiter looks at the cell around two await loops
fn gen_await_two_stores(rng: &mut Rng) -> Program {
    let mut vs = ValueSrc::new();
    let pal = *rng.pick(&[Palette::RlxOnly, Palette::RelAcq, Palette::All]);
    // a0, a1: flags; a2: the cell
    let mut p = Program { atomics: vec![0; 3], ..Default::default() };
    let mut w1 = vec![Op::Store { a: 2, v: vs.constant(), o: pick_store_ord(rng, pal) }];
    let f1 = vs.constant();
    w1.push(Op::Store { a: 0, v: f1, o: pick_store_ord(rng, pal) });
    let mut w2 = vec![Op::Store { a: 2, v: vs.constant(), o: pick_store_ord(rng, pal) }];
    let f2 = vs.constant();
    w2.push(Op::Store { a: 1, v: f2, o: pick_store_ord(rng, pal) });
    let mut waiter = Vec::new();
    if rng.chance(1, 2) {
        waiter.push(Op::Load { a: 2, o: pick_load_ord(rng, pal) });
    }
    let (fa, fb) = if rng.chance(1, 2) { ((0u8, f1), (1u8, f2)) } else { ((1u8, f2), (0u8, f1)) };
    waiter.push(Op::Await { a: fa.0, o: pick_load_ord(rng, pal), v: fa.1 });
    waiter.push(Op::Load { a: 2, o: pick_load_ord(rng, pal) });
    // (yield-first loops, Op::AwaitY, are only exercised by the K9 witness: loom's yield pruning
    // makes their result sets incomplete by design, see known_findings.txt)
    waiter.push(Op::Await { a: fb.0, o: pick_load_ord(rng, pal), v: fb.1 });
    waiter.push(Op::Load { a: 2, o: pick_load_ord(rng, pal) });
    if rng.chance(4, 5) {
        // the waiter is main
        p.threads = vec![vec![Op::Spawn { t: 1 }, Op::Spawn { t: 2 }], w1, w2];
        p.threads[0].extend(waiter);
        p.threads[0].push(Op::Join { t: 1 });
        p.threads[0].push(Op::Join { t: 2 });
    } else {
        p.threads = vec![vec![Op::Spawn { t: 1 }, Op::Spawn { t: 2 }, Op::Spawn { t: 3 }, Op::Join { t: 1 }, Op::Join { t: 2 }, Op::Join { t: 3 }], w1, w2, waiter];
    }
    p
}

pub fn gen_await(rng: &mut Rng, never: bool) -> Program {
    if !never && rng.chance(1, 4) {
        return gen_await_two_stores(rng);
    }
    let mut vs = ValueSrc::new();
    let pal = *rng.pick(&[Palette::RlxOnly, Palette::RelAcq, Palette::RelAcq, Palette::All]);
    let n_writers = rng.range(1, 2);
    let nt = n_writers + 2; // main + writers + waiter (waiter may be main)
    let n_flags = rng.range(1, 2);
    let n_data = rng.range(0, 2);
    let na = n_flags + n_data;
    let mut p = Program { atomics: vec![0; na], ..Default::default() };
    let waiter_is_main = rng.chance(1, 3);
    let waiter = if waiter_is_main { 0 } else { nt - 1 };
    let nthreads = if waiter_is_main { nt - 1 } else { nt };
    p.threads = vec![Vec::new(); nthreads];
    let mut bodies: Vec<Vec<Op>> = vec![Vec::new(); nthreads];
    // each flag is written exactly once, by one writer, after that writer's data stores
    let mut flag_vals = vec![0u64; n_flags];
    for f in 0..n_flags {
        let w = 1 + rng.below(n_writers);
        let nd = if n_data > 0 { rng.range(0, 2) } else { 0 };
        for _ in 0..nd {
            let d = n_flags + rng.below(n_data);
            bodies[w].push(Op::Store { a: d as u8, v: vs.constant(), o: pick_store_ord(rng, pal) });
        }
        if pal != Palette::RlxOnly && rng.chance(1, 5) {
            bodies[w].push(Op::Fence { o: pick_fence_ord(rng, pal) });
        }
        let v = vs.constant();
        flag_vals[f] = v;
        bodies[w].push(Op::Store { a: f as u8, v, o: pick_store_ord(rng, pal) });
        if rng.chance(1, 3) && n_data > 0 {
            let d = n_flags + rng.below(n_data);
            bodies[w].push(Op::Store { a: d as u8, v: vs.constant(), o: pick_store_ord(rng, pal) });
        }
    }
    // the waiter: optional reads, await(s), reads afterwards
    if rng.chance(1, 3) && n_data > 0 {
        let d = n_flags + rng.below(n_data);
        bodies[waiter].push(Op::Load { a: d as u8, o: pick_load_ord(rng, pal) });
    }
    let never_at = if never { Some(rng.below(n_flags)) } else { None };
    for f in 0..n_flags {
        let v = if never_at == Some(f) { NEVER } else { flag_vals[f] };
        bodies[waiter].push(Op::Await { a: f as u8, o: pick_load_ord(rng, pal), v });
        if pal != Palette::RlxOnly && rng.chance(1, 5) {
            bodies[waiter].push(Op::Fence { o: pick_fence_ord(rng, pal) });
        }
        let nr = rng.range(0, 2);
        for _ in 0..nr {
            let a = if n_data > 0 && rng.chance(3, 4) { n_flags + rng.below(n_data) } else { rng.below(n_flags) };
            bodies[waiter].push(Op::Load { a: a as u8, o: pick_load_ord(rng, pal) });
        }
    }
    for t in 1..nthreads {
        p.threads[0].push(Op::Spawn { t: t as u8 });
    }
    p.threads[0].extend(std::mem::take(&mut bodies[0]));
    if !never {
        for t in 1..nthreads {
            p.threads[0].push(Op::Join { t: t as u8 });
        }
        if rng.chance(1, 2) {
            for a in 0..na {
                p.threads[0].push(Op::Load { a: a as u8, o: MO::Rlx });
            }
        }
    }
    for t in 1..nthreads {
        p.threads[t] = std::mem::take(&mut bodies[t]);
    }
    p
}

// ------------------------------------------------------------------------------------------
// thread_local! / lazy_static! family (C17)

pub fn gen_tls_lazy(rng: &mut Rng) -> Program {
    let mut vs = ValueSrc::new();
    let spawned = rng.range(1, 3);
    let nt = spawned + 1;
    let with_atomic = rng.chance(1, 2);
    let with_mutex = rng.chance(1, 4);
    let mut p = Program { atomics: if with_atomic { vec![0] } else { vec![] }, n_mutex: with_mutex as u8, ..Default::default() };
    p.threads = vec![Vec::new(); nt];
    let use_tls = rng.chance(3, 4);
    let use_lazy = !use_tls || rng.chance(2, 3);
    let mut bodies: Vec<Vec<Op>> = vec![Vec::new(); nt];
    for t in 0..nt {
        let n = rng.range(1, 4);
        for _ in 0..n {
            let mut kinds: Vec<u8> = Vec::new();
            if use_tls {
                kinds.extend([0, 0, 1]);
            }
            if use_lazy {
                kinds.extend([2, 2, 2]);
            }
            if with_atomic {
                kinds.extend([3, 4]);
            }
            if with_mutex {
                kinds.push(5);
            }
            let op = match *rng.pick(&kinds) {
                0 => Op::TlsWith { k: rng.below(2) as u8 },
                1 => Op::TlsNested { k: rng.below(2) as u8, j: rng.below(2) as u8 },
                2 => Op::LazyGet { k: rng.below(2) as u8 },
                3 => Op::Load { a: 0, o: MO::Sc },
                4 => Op::Store { a: 0, v: vs.constant(), o: MO::Sc },
                _ => {
                    bodies[t].push(Op::Lock { m: 0 });
                    bodies[t].push(Op::LazyGet { k: 0 });
                    Op::Unlock { m: 0 }
                }
            };
            bodies[t].push(op);
        }
    }
    for t in 1..nt {
        p.threads[0].push(Op::Spawn { t: t as u8 });
    }
    p.threads[0].extend(std::mem::take(&mut bodies[0]));
    for t in 1..nt {
        // lazy statics are torn down when main returns: threads that may still use them are joined
        let has_lazy = bodies.iter().flatten().any(|o| matches!(o, Op::LazyGet { .. })) || p.threads[0].iter().any(|o| matches!(o, Op::LazyGet { .. }));
        if use_lazy || has_lazy || rng.chance(5, 6) {
            p.threads[0].push(Op::Join { t: t as u8 });
        }
    }
    if use_lazy && rng.chance(1, 2) {
        p.threads[0].push(Op::LazyGet { k: rng.below(2) as u8 });
    }
    for t in 1..nt {
        p.threads[t] = std::mem::take(&mut bodies[t]);
    }
    p
}

// ------------------------------------------------------------------------------------------
// futures family (C20): one thread blocks on a future, 1-2 threads set the flag and wake

/// two threads each set their own flag and wake the future through their own clone of its waker
fn gen_future_two_wakers(rng: &mut Rng) -> Program {
    let mut vs = ValueSrc::new();
    let mut p = Program { atomics: vec![0, 0], ..Default::default() };
    let o_s = *rng.pick(&[MO::Rlx, MO::Rlx, MO::Rel, MO::Sc]);
    let o_l = *rng.pick(&[MO::Rlx, MO::Rlx, MO::Acq, MO::Sc]);
    let (va, vb) = (vs.constant(), vs.constant());
    let mut t1 = vec![Op::Store { a: 0, v: va, o: o_s }, Op::SlotWake { i: 0, by_ref: rng.chance(1, 2) }];
    let mut t2 = vec![Op::Store { a: 1, v: vb, o: o_s }, Op::SlotWake { i: 1, by_ref: rng.chance(1, 2) }];
    if rng.chance(1, 4) {
        t1.push(Op::SlotWake { i: 0, by_ref: false });
    }
    if rng.chance(1, 6) {
        t2.insert(0, Op::SlotWake { i: 1, by_ref: true });
    }
    let mut t0 = vec![Op::Spawn { t: 1 }, Op::Spawn { t: 2 }, Op::BlockOn2 { a: 0, va, b: 1, vb, o: o_l }];
    if rng.chance(1, 2) {
        t0.push(Op::Load { a: 1, o: MO::Rlx });
    }
    t0.push(Op::Join { t: 1 });
    t0.push(Op::Join { t: 2 });
    // consume whatever waker clones are left in the slots (a leftover clone is a leaked Arc)
    t0.push(Op::SlotWake { i: 0, by_ref: false });
    t0.push(Op::SlotWake { i: 1, by_ref: false });
    p.threads = vec![t0, t1, t2];
    p
}

pub fn gen_future(rng: &mut Rng) -> Program {
    if rng.chance(1, 4) {
        return gen_future_two_wakers(rng);
    }
    let mut vs = ValueSrc::new();
    let n_wakers = rng.range(1, 2);
    let nt = n_wakers + 1;
    let two_rounds = rng.chance(1, 4);
    let mut p = Program { atomics: vec![0; if two_rounds { 2 } else { 1 }], ..Default::default() };
    p.threads = vec![Vec::new(); nt];
    let reg_first = rng.chance(4, 5);
    let ord_l = *rng.pick(&[MO::Acq, MO::Sc, MO::Rlx]);
    let ord_s = *rng.pick(&[MO::Rel, MO::Sc, MO::Rlx]);
    let v0 = vs.constant();
    let v1 = vs.constant();
    // wakers
    let mut bodies: Vec<Vec<Op>> = vec![Vec::new(); nt];
    let setter = 1 + rng.below(n_wakers);
    for t in 1..nt {
        if t == setter {
            bodies[t].push(Op::Store { a: 0, v: v0, o: ord_s });
            if !rng.chance(1, 8) {
                bodies[t].push(Op::AwWake);
            }
            if two_rounds {
                bodies[t].push(Op::Store { a: 1, v: v1, o: ord_s });
                bodies[t].push(Op::AwWake);
            }
        } else {
            // a second thread that wakes without setting (stray wake) or wakes early
            match rng.below(3) {
                0 => bodies[t].push(Op::AwWake),
                1 => {
                    bodies[t].push(Op::Load { a: 0, o: ord_l });
                    bodies[t].push(Op::AwWake);
                }
                _ => {
                    bodies[t].push(Op::AwWake);
                    bodies[t].push(Op::AwWake);
                }
            }
        }
    }
    for t in 1..nt {
        p.threads[0].push(Op::Spawn { t: t as u8 });
    }
    p.threads[0].push(Op::BlockOn { a: 0, v: v0, o: ord_l, reg_first });
    if two_rounds {
        p.threads[0].push(Op::BlockOn { a: 1, v: v1, o: ord_l, reg_first });
    }
    if rng.chance(1, 2) {
        p.threads[0].push(Op::Load { a: 0, o: MO::Rlx });
    }
    for t in 1..nt {
        p.threads[0].push(Op::Join { t: t as u8 });
    }
    for t in 1..nt {
        p.threads[t] = std::mem::take(&mut bodies[t]);
    }
    if rng.chance(1, 5) {
        // a future that wakes itself by reference from inside poll, somewhere
        let t = rng.below(nt);
        let at = if t == 0 { nt - 1 + rng.below(p.threads[0].len() - (nt - 1) - (nt - 1) + 1) } else { rng.below(p.threads[t].len() + 1) };
        p.threads[t].insert(at, Op::SelfWake);
    }
    p
}


// ------------------------------------------------------------------------------------------
// FAULT: caught panics. A panic is raised and caught (`catch_unwind`) inside the model and a
// release-type operation of the program is performed by a destructor while it unwinds
// (`std::thread::panicking()` is true). The operation must take effect exactly as it does
// otherwise (plus lock poisoning).
//
// Domain: all modeled threads share one OS thread and therefore one `panicking()` flag (known
// finding K7): if the unwinding thread is switched out, other threads run "while panicking".
// The fault is therefore only placed where loom cannot switch threads during the unwinding:
// on operations that have no scheduling point, or at points of thread 0 where every other
// thread is finished (joined) or not yet spawned.

/// Thread 0 at `pc`: every other thread has been joined before `pc` or is spawned after it
/// (threads are only spawned by thread 0).
fn quiescent_at(p: &Program, t: usize, pc: usize) -> bool {
    if t != 0 {
        return false;
    }
    for (u, th) in p.threads.iter().enumerate() {
        if u != 0 && th.iter().any(|o| matches!(o.inner(), Op::Spawn { .. })) {
            return false;
        }
    }
    for (i, op) in p.threads[0].iter().enumerate() {
        if let Op::Spawn { t: u } = op {
            if i > pc {
                continue;
            }
            let joined = p.threads[0][i..pc].iter().any(|o| matches!(o, Op::Join { t: x } if x == u));
            if !joined {
                return false;
            }
        } else if matches!(op.inner(), Op::Spawn { .. }) {
            return false; // conditional spawn: not analysed
        }
    }
    true
}

pub fn caught_sites(p: &Program) -> Vec<(usize, usize)> {
    let mut sites = Vec::new();
    for (t, th) in p.threads.iter().enumerate() {
        for (pc, op) in th.iter().enumerate() {
            let ok = match op {
                Op::Unlock { .. } | Op::RUnlock { .. } | Op::WUnlock { .. } | Op::TrackDrop { .. } | Op::Dealloc { .. } | Op::DropTx { .. } | Op::Unpark { .. } => true,
                Op::DropRx { .. } | Op::ArcDrop { .. } | Op::Store { .. } | Op::Send { .. } | Op::CvOne { .. } | Op::CvAll { .. } | Op::NNotify { .. } | Op::CWrite { .. } | Op::CRead { .. } | Op::Load { .. } | Op::FetchAdd { .. } => {
                    quiescent_at(p, t, pc)
                }
                _ => false,
            };
            if ok {
                sites.push((t, pc));
            }
        }
    }
    sites
}

/// Wrap one (sometimes two) eligible operations; returns the number of faults placed.
pub fn inject_caught(p: &mut Program, rng: &mut Rng) -> usize {
    // a receiver that still holds messages dropped by the unwinding, once everything else is over
    if p.n_chan > 0 && rng.chance(1, 2) {
        let c = rng.below(p.n_chan as usize) as u8;
        let others_receive = p.threads.iter().enumerate().any(|(t, th)| t != 0 && th.iter().any(|o| matches!(o.inner(), Op::Recv { c: x } | Op::TryRecv { c: x } | Op::DropRx { c: x } if *x == c)));
        let t0_drops = p.threads[0].iter().any(|o| matches!(o.inner(), Op::DropRx { c: x } if *x == c));
        let end = p.threads[0].len();
        if !others_receive && !t0_drops && quiescent_at(p, 0, end) {
            p.threads[0].push(Op::Caught { op: Box::new(Op::DropRx { c }) });
            return 1;
        }
    }
    let mut sites = caught_sites(p);
    if sites.is_empty() {
        return 0;
    }
    let n = if sites.len() >= 2 && rng.chance(1, 3) { 2 } else { 1 };
    let mut placed = 0;
    for _ in 0..n {
        let i = rng.below(sites.len());
        let (t, pc) = sites.remove(i);
        let op = std::mem::replace(&mut p.threads[t][pc], Op::Yield);
        p.threads[t][pc] = Op::Caught { op: Box::new(op) };
        placed += 1;
    }
    placed
}
