//! One simulated run = one generated program executed on real loom + the reference machine,
//! judged by the oracles selected for the check.

use crate::dsl::*;
use crate::graph::Deviation;
use crate::interp::*;
use crate::machine::*;
use crate::oracle::*;
use crate::rng::Rng;
use serde_json::json;
use std::cell::RefCell;
use std::collections::{BTreeMap, HashMap, HashSet};
use std::rc::Rc;

#[derive(Clone, Debug, serde::Serialize, serde::Deserialize)]
pub struct Violation {
    /// missing_outcome | invalid_execution | false_report | missed_report | internal | ...
    pub kind: String,
    pub detail: String,
    /// id of the known finding this violation is attributed to, if any
    pub known: Option<String>,
    pub evidence: serde_json::Value,
}

#[derive(Clone, Debug)]
pub struct CaseOpts {
    /// O1: MUST-walk outcomes must be explored by loom
    pub o1: Option<MachineCfg>,
    /// O2: every loom iteration must replay on the MAY machine
    pub o2: bool,
    /// O3a: failures found by MUST walks must be reported by loom (classes listed)
    pub o3_must_classes: Vec<FailClass>,
    /// judge every explored iteration for unreported races (largest hb) even where completeness
    /// (o3_must_classes) is not demanded
    pub race_iter: bool,
    /// O3b: failures reported by loom (classes listed) must be justified by the MAY machine
    pub o3_may_classes: Vec<FailClass>,
    /// any loom failure outside o3_may_classes / expected classes is a violation (internal panics)
    pub internal_is_violation: bool,
    /// loom failures of these classes are neither checked nor counted as violations
    pub ignore_classes: Vec<FailClass>,
    /// O4: depth-first order / no repetition of decision paths (hook H1)
    pub o4: bool,
    /// validate the thread_local! / lazy_static! life cycle notes of every iteration
    pub tls_lazy: bool,
    pub walks0: usize,
    pub walk_cap: usize,
    /// attribute violations to known findings through deviations
    pub attribute: bool,
}

impl Default for CaseOpts {
    fn default() -> CaseOpts {
        CaseOpts {
            o1: None,
            o2: false,
            o3_must_classes: vec![],
            race_iter: false,
            o3_may_classes: vec![],
            internal_is_violation: true,
            ignore_classes: vec![],
            o4: false,
            tls_lazy: false,
            walks0: 64,
            walk_cap: 512,
            attribute: true,
        }
    }
}

#[derive(Clone, Debug, Default)]
pub struct CaseReport {
    pub program: String,
    pub program_hash: u64,
    pub nontrivial: bool,
    pub status: String,
    pub iterations: usize,
    pub loom_outcomes: usize,
    pub ref_outcomes: usize,
    pub walks: usize,
    pub walk_steps: usize,
    pub distinct_paths: usize,
    pub distinct_ref_schedules: usize,
    pub o2_checked: usize,
    pub o2_cache_hits: usize,
    pub too_large: bool,
    pub violations: Vec<Violation>,
    pub probes: BTreeMap<String, u64>,
    pub outcomes_hash: u64,
    pub sample: Option<serde_json::Value>,
    /// check-specific counters (fault kinds configured/fired, ...)
    pub extra: BTreeMap<String, u64>,
}

struct Collector {
    outcomes: BTreeMap<String, usize>,
    paths: HashSet<u64>,
    o2_cache: HashMap<u64, (Option<String>, bool)>,
    first_unreported_race: Option<(usize, History)>,
    o2_checked: usize,
    o2_hits: usize,
    first_invalid: Option<(usize, History, String, Vec<String>)>,
    invalid_count: usize,
    iter: usize,
    max_load_cands: usize,
    n_load_branches: u64,
    n_sched_branches: u64,
    n_spur_branches: u64,
    outcome_seq_hash: u64,
    prev_path: Option<Vec<loom::verif::Branch>>,
    path_seen: HashMap<u64, usize>,
    o4_violation: Option<(usize, String, Vec<String>, Vec<String>)>,
}

pub fn results_from_history(p: &Program, h: &[HEv]) -> Vec<Vec<Option<u64>>> {
    let mut res: Vec<Vec<Option<u64>>> = p.threads.iter().map(|t| vec![None; t.len()]).collect();
    for e in h {
        if e.kind == HK::Ret {
            res[e.tid as usize][e.pc as usize] = e.res;
        }
    }
    res
}

pub fn hist_hash(h: &[HEv]) -> u64 {
    let mut bytes = Vec::with_capacity(h.len() * 12);
    for e in h {
        bytes.push(e.tid);
        bytes.push(e.pc as u8);
        bytes.push(e.kind as u8);
        match e.res {
            Some(v) => {
                bytes.push(1);
                bytes.extend_from_slice(&v.to_le_bytes());
            }
            None => bytes.push(0),
        }
    }
    crate::rng::hash_bytes(&bytes)
}

pub fn path_text(path: &[loom::verif::Branch]) -> Vec<String> {
    use loom::verif::{Branch, ThreadStatus};
    path.iter()
        .map(|b| match b {
            Branch::Schedule { threads, active, initial_active, preemptions, exploring } => {
                let th: String = threads
                    .iter()
                    .map(|t| match t {
                        ThreadStatus::Disabled => 'D',
                        ThreadStatus::Skip => 'S',
                        ThreadStatus::Yield => 'Y',
                        ThreadStatus::Pending => 'P',
                        ThreadStatus::Active => 'A',
                        ThreadStatus::Visited => 'V',
                    })
                    .collect();
                format!("S[{}]a={:?},i={:?},p={},x={}", th, active, initial_active, preemptions, *exploring as u8)
            }
            Branch::Load { values, pos, exploring } => format!("L{:?}@{},x={}", values, pos, *exploring as u8),
            Branch::Spurious { spur, exploring } => format!("P{},x={}", *spur as u8, *exploring as u8),
        })
        .collect()
}

/// hash of the complete decision sequence (kind + chosen alternative of every branch)
pub fn full_path_hash(path: &[loom::verif::Branch]) -> u64 {
    let mut bytes = Vec::new();
    for b in path {
        match b {
            loom::verif::Branch::Schedule { active, .. } => {
                bytes.push(b'S');
                bytes.push(active.map(|x| x + 1).unwrap_or(0));
            }
            loom::verif::Branch::Load { pos, values, .. } => {
                bytes.push(b'L');
                bytes.push(values.get(*pos as usize).cloned().unwrap_or(255));
            }
            loom::verif::Branch::Spurious { spur, .. } => {
                bytes.push(b'P');
                bytes.push(*spur as u8);
            }
        }
    }
    crate::rng::hash_bytes(&bytes)
}

pub fn path_hash(path: &[loom::verif::Branch]) -> u64 {
    // decisions only: kind + chosen alternative
    let mut bytes = Vec::new();
    for b in path {
        match b {
            loom::verif::Branch::Schedule { active, .. } => {
                bytes.push(b'S');
                bytes.push(active.map(|x| x + 1).unwrap_or(0));
            }
            loom::verif::Branch::Load { pos, values, .. } => {
                bytes.push(b'L');
                bytes.push(*pos);
                bytes.push(values.len() as u8);
            }
            loom::verif::Branch::Spurious { spur, .. } => {
                bytes.push(b'P');
                bytes.push(*spur as u8);
            }
        }
    }
    crate::rng::hash_bytes(&bytes)
}

/// Known finding K3 (an RMW is not atomic with respect to a racing plain store) can only explain
/// an execution of a program in which some atomic is updated by a read-modify-write in one thread
/// and plainly stored to by another: attribution is not even attempted elsewhere (a violation in
/// a program without that shape was once hidden behind K3 - seeded change C17-m8, DESIGN §12).
pub fn k3_applicable(p: &Program) -> bool {
    for (t, ops) in p.threads.iter().enumerate() {
        for op in ops {
            let a = match op.inner() {
                Op::Swap { a, .. } | Op::FetchAdd { a, .. } | Op::Cas { a, .. } | Op::FetchUpdate { a, .. } => *a,
                _ => continue,
            };
            for (u, ops2) in p.threads.iter().enumerate() {
                if u != t && ops2.iter().any(|o| matches!(o.inner(), Op::Store { a: b, .. } | Op::AWithMut { a: b, .. } if *b == a)) {
                    return true;
                }
            }
        }
    }
    false
}

pub fn run_case(p: &Program, cfg: &Config, opts: &CaseOpts, rng: &mut Rng) -> CaseReport {
    // a lock guard dropped by a caught unwinding panic poisons the lock: acquiring it again
    // panics (`lock().unwrap()`), exactly when the reference says so
    let poisoning = p.threads.iter().flatten().any(|o| o.is_caught() && matches!(o.inner(), Op::Unlock { .. } | Op::WUnlock { .. }));
    let mut opts_owned;
    let opts = if poisoning {
        opts_owned = opts.clone();
        if !opts_owned.o3_must_classes.is_empty() {
            // (completeness is not demanded of programs in the domain of K6: validity only)
            opts_owned.o3_must_classes.push(FailClass::Poison);
        }
        opts_owned.o3_may_classes.push(FailClass::Poison);
        &opts_owned
    } else {
        opts
    };
    let mut rep = CaseReport { program: p.text(), program_hash: p.hash(), nontrivial: p.nontrivial(), ..Default::default() };
    let col = Rc::new(RefCell::new(Collector {
        outcomes: BTreeMap::new(),
        paths: HashSet::new(),
        o2_cache: HashMap::new(),
        first_unreported_race: None,
        o2_checked: 0,
        o2_hits: 0,
        first_invalid: None,
        invalid_count: 0,
        iter: 0,
        max_load_cands: 0,
        n_load_branches: 0,
        n_sched_branches: 0,
        n_spur_branches: 0,
        outcome_seq_hash: 0,
        prev_path: None,
        path_seen: HashMap::new(),
        o4_violation: None,
    }));
    let col2 = col.clone();
    let p2 = p.clone();
    let do_o2 = opts.o2;
    let do_o4 = opts.o4;
    let do_tls = opts.tls_lazy;
    let do_race_iter = opts.race_iter || opts.o3_must_classes.iter().any(|c| *c == FailClass::Race);
    let dump = std::env::var("VERIF_DUMP").is_ok();
    let may = MachineCfg::may();
    let may2 = may.clone();
    let run = run_loom(p, cfg, move |h, _tids, path| {
        let may = &may2;
        let mut c = col2.borrow_mut();
        c.iter += 1;
        let it = c.iter;
        let res = results_from_history(&p2, h);
        let out = outcome_string(&p2, &res);
        if dump {
            println!("ITER {} [{}] hist: {}\n      path: {:?}", it, out, history_text(h), path_text(path));
        }
        c.outcome_seq_hash = c.outcome_seq_hash.wrapping_mul(0x100000001b3) ^ crate::rng::hash_str(&out);
        c.outcomes.entry(out).or_insert(it);
        c.paths.insert(path_hash(path));
        for b in path {
            match b {
                loom::verif::Branch::Load { values, .. } => {
                    c.n_load_branches += 1;
                    c.max_load_cands = c.max_load_cands.max(values.len());
                }
                loom::verif::Branch::Schedule { .. } => c.n_sched_branches += 1,
                loom::verif::Branch::Spurious { .. } => c.n_spur_branches += 1,
            }
        }
        if do_o4 && c.o4_violation.is_none() {
            let ph = full_path_hash(path);
            if let Some(&first) = c.path_seen.get(&ph) {
                c.o4_violation = Some((it, format!("iteration {} repeats the decision path of iteration {}", it, first), vec![], path_text(path)));
            }
            c.path_seen.insert(ph, it);
            if let Some(prev) = c.prev_path.take() {
                if let Err(e) = crate::oracle::o4_step(&prev, path) {
                    if c.o4_violation.is_none() {
                        c.o4_violation = Some((it, format!("iteration {} does not follow iteration {} in depth-first order: {}", it, it - 1, e), path_text(&prev), path_text(path)));
                    }
                }
            }
            c.prev_path = Some(path.to_vec());
        }
        if do_o2 || do_race_iter {
            let hh = hist_hash(h);
            let cached = c.o2_cache.get(&hh).cloned();
            let (verdict, race_large) = match cached {
                Some(v) => {
                    c.o2_hits += 1;
                    v
                }
                None => {
                    c.o2_checked += 1;
                    let mut v = match replay_may(&p2, h, may, false) {
                        Ok(a) => (None, a.race_large),
                        Err(e) => (Some(e), false),
                    };
                    if do_tls && v.0.is_none() {
                        if let Err(e) = check_tls_lazy(&p2, h) {
                            v.0 = Some(e);
                        }
                    }
                    c.o2_cache.insert(hh, v.clone());
                    v
                }
            };
            if do_o2 {
                if let Some(reason) = verdict {
                    c.invalid_count += 1;
                    if c.first_invalid.is_none() {
                        c.first_invalid = Some((it, h.clone(), reason, path_text(path)));
                    }
                }
            }
            if do_race_iter && race_large && c.first_unreported_race.is_none() {
                c.first_unreported_race = Some((it, h.clone()));
            }
        }
    });
    let c = col.borrow();
    rep.iterations = run.iterations;
    rep.loom_outcomes = c.outcomes.len();
    rep.distinct_paths = c.paths.len();
    rep.o2_checked = c.o2_checked;
    rep.o2_cache_hits = c.o2_hits;
    rep.outcomes_hash = c.outcome_seq_hash;
    rep.probes.insert("load_branches".into(), c.n_load_branches);
    rep.probes.insert("sched_branches".into(), c.n_sched_branches);
    rep.probes.insert("spurious_branches".into(), c.n_spur_branches);
    rep.probes.insert("load_with_ge2_candidates".into(), (c.max_load_cands >= 2) as u64);
    rep.status = match &run.status {
        LoomStatus::Completed => "completed".into(),
        LoomStatus::Capped => "capped".into(),
        LoomStatus::Failed { class, .. } => format!("failed:{:?}", class),
    };
    rep.too_large = matches!(run.status, LoomStatus::Capped);

    // ---- O2 on completed iterations
    if let Some((it, h, reason, path)) = &c.first_invalid {
        let mut known = None;
        if opts.attribute && k3_applicable(p) {
            let mut dev = MachineCfg::may();
            dev.dev = Deviation { at_ignores_plain_stores: true };
            if replay_may(p, h, &dev, false).map(|a| !a.results.is_empty()).unwrap_or(false) {
                known = Some("K3-rmw-atomicity-vs-racing-store".to_string());
            }
        }
        rep.violations.push(Violation {
            kind: "invalid_execution".into(),
            detail: format!("iteration {}: {} ({} of {} iterations invalid)", it, reason, c.invalid_count, run.iterations),
            known,
            evidence: json!({"iteration": it, "history": history_text(h), "history_events": h, "path": path}),
        });
    }

    if let Some((it, msg, prev, cur)) = &c.o4_violation {
        rep.violations.push(Violation {
            kind: "path_order".into(),
            detail: msg.clone(),
            known: None,
            evidence: json!({"iteration": it, "previous_path": prev, "path": cur}),
        });
    }
    if opts.o4 && matches!(run.status, LoomStatus::Completed) {
        // the last path must have no unexplored alternative left
        if let Some(last) = &c.prev_path {
            if let Some(i) = crate::oracle::o4_first_open(last) {
                rep.violations.push(Violation {
                    kind: "path_order".into(),
                    detail: format!("the model returned after {} iterations although branch {} of the last path still had an unexplored alternative", run.iterations, i),
                    known: None,
                    evidence: json!({"path": path_text(last)}),
                });
            }
        }
        if c.path_seen.len() != run.iterations {
            rep.violations.push(Violation {
                kind: "path_order".into(),
                detail: format!("{} iterations but {} distinct decision paths", run.iterations, c.path_seen.len()),
                known: None,
                evidence: json!({}),
            });
        }
    }

    // (C04 is a statement about the model run as a whole: "fails iff SOME execution races". An
    // execution whose race went unreported is a violation only if no other execution made the
    // model fail with a race report; a run stopped by the iteration cap is inconclusive.)
    let race_reported_elsewhere = !matches!(run.status, LoomStatus::Completed);
    if let (Some((it, h)), false) = (&c.first_unreported_race, race_reported_elsewhere) {
        rep.violations.push(Violation {
            kind: "missed_report".into(),
            detail: format!("iteration {} performs two conflicting accesses that are unordered even by the largest happens-before (all envelope edges included), but loom did not report a data race in it", it),
            known: None,
            evidence: json!({"iteration": it, "history": history_text(h), "history_events": h}),
        });
    }

    // ---- reference walks
    let need_walks = opts.o1.is_some() || !opts.o3_must_classes.is_empty();
    let mut ws: Option<WalkSet> = None;
    if need_walks && !rep.too_large {
        let mcfg = opts.o1.clone().unwrap_or_else(MachineCfg::must);
        let w = must_walks(p, &mcfg, rng, opts.walks0, opts.walk_cap);
        rep.walks = w.walks;
        rep.walk_steps = w.steps;
        rep.ref_outcomes = w.outcomes.len();
        rep.distinct_ref_schedules = w.distinct_schedules.len();
        rep.probes.insert("ref_load_multi".into(), w.probe_load_multi);
        rep.probes.insert("ref_blocked_then_woken".into(), w.probe_woken);
        rep.probes.insert("ref_rmw_read_nonlatest".into(), w.probe_rmw_nonlatest);
        ws = Some(w);
    }

    match &run.status {
        LoomStatus::Completed => {
            if let Some(w) = &ws {
                // O3a: a failure the reference can reach must have been reported
                for (k, (term, sched)) in &w.failures {
                    if let Some(cl) = class_of_terminal(term) {
                        if opts.o3_must_classes.iter().any(|c| same_class(c, &cl)) {
                            let known = None;
                            rep.violations.push(Violation {
                                kind: "missed_report".into(),
                                detail: format!("the reference reaches {} but loom completed all {} iterations without reporting it", k, run.iterations),
                                known,
                                evidence: json!({"terminal": k, "ref_schedule": sched}),
                            });
                        }
                    }
                }
                // O1
                if opts.o1.is_some() {
                    for (out, sched) in &w.outcomes {
                        if !c.outcomes.contains_key(out) {
                            let mut known = None;
                            if opts.attribute {
                                let has_await = p.threads.iter().flatten().any(|o| matches!(o.inner(), Op::Await { .. }));
                                let mut dcfg = opts.o1.clone().unwrap();
                                dcfg.rmw_reads_mo_max_only = true;
                                dcfg.spinner_resumes_last = has_await;
                                let target = parse_outcome(p, out);
                                if outcome_reachable(p, &dcfg, &target, 3_000_000) == Some(false) {
                                    known = Some("K5-rmw-reads-only-latest-store".to_string());
                                }
                                if known.is_none() && p.threads.iter().flatten().any(|o| matches!(o.inner(), Op::AwaitY { .. } | Op::Await { .. })) {
                                    let mut dcfg = opts.o1.clone().unwrap();
                                    dcfg.yield_prunes_seen = true;
                                    dcfg.spinner_resumes_last = has_await;
                                    if outcome_reachable(p, &dcfg, &target, 3_000_000) == Some(false) {
                                        known = Some("K9-yield-prunes-stale-rereads".to_string());
                                    }
                                }
                                if known.is_none() {
                                    let mut dcfg = opts.o1.clone().unwrap();
                                    dcfg.sc_load_skips_overwritten_sc_store = true;
                                    dcfg.spinner_resumes_last = has_await;
                                    if outcome_reachable(p, &dcfg, &target, 3_000_000) == Some(false) {
                                        known = Some("K8-seqcst-load-assumes-execution-order".to_string());
                                    }
                                }
                            }
                            rep.violations.push(Violation {
                                kind: "missing_outcome".into(),
                                detail: format!("outcome [{}] is allowed (reference schedule attached) but none of loom's {} iterations ({} distinct outcomes) produced it", out, run.iterations, c.outcomes.len()),
                                known,
                                evidence: json!({"outcome": out, "ref_schedule": sched, "loom_outcomes": c.outcomes.keys().collect::<Vec<_>>()}),
                            });
                            break; // one per program is enough
                        }
                    }
                }
            }
        }
        LoomStatus::Capped => {}
        LoomStatus::Failed { class, .. } if opts.ignore_classes.iter().any(|c| same_class(c, class)) => {}
        LoomStatus::Failed { class, msg } => {
            let h = run.failing_history.clone().unwrap_or_default();
            let expected_class = opts.o3_may_classes.iter().any(|c| same_class(c, class));
            if expected_class {
                // O3b: justified?
                let just = match class {
                    FailClass::Deadlock => replay_may_any(p, &h, &may, true, |a| a.deadlocked),
                    FailClass::Race => justify_race(p, &h, &may),
                    FailClass::Poison => replay_may_any(p, &h, &may, true, |a| a.poisoned),
                    FailClass::Leak(kind) => {
                        let k = kind.clone();
                        replay_may_any(p, &h, &may, false, move |a| a.leaks.iter().any(|x| x == &k))
                    }
                    _ => Ok(true),
                };
                match just {
                    Ok(true) => {}
                    Ok(false) => rep.violations.push(Violation {
                        kind: "false_report".into(),
                        detail: format!("loom reported {:?} in iteration {} but the reference does not justify it: {}", class, run.iterations + 1, first_line(msg)),
                        known: None,
                        evidence: json!({"iteration": run.iterations + 1, "history": history_text(&h), "history_events": h, "message": first_line(msg)}),
                    }),
                    Err(e) => {
                        if opts.o2 {
                            let mut known = None;
                            if opts.attribute && k3_applicable(p) {
                                let mut dev = MachineCfg::may();
                                dev.dev = Deviation { at_ignores_plain_stores: true };
                                if replay_may(p, &h, &dev, true).map(|a| !a.results.is_empty()).unwrap_or(false) {
                                    known = Some("K3-rmw-atomicity-vs-racing-store".to_string());
                                }
                            }
                            rep.violations.push(Violation {
                                kind: "invalid_execution".into(),
                                detail: format!("failing iteration {}: {}", run.iterations + 1, e),
                                known,
                                evidence: json!({"iteration": run.iterations + 1, "history": history_text(&h), "history_events": h}),
                            });
                        }
                    }
                }
            } else if opts.internal_is_violation {
                // K7: all modeled threads share one OS thread, hence one `std::thread::panicking()`
                // flag; while a thread that is unwinding a caught panic is switched out, the lock
                // releases of the other threads poison loom's inner std mutexes
                let has_unwind = p.threads.iter().flatten().any(|o| matches!(o, Op::UnwindLock { .. }));
                let known = if opts.attribute && has_unwind && msg.contains("PoisonError") {
                    Some("K7-panicking-flag-shared-by-modeled-threads".to_string())
                } else {
                    None
                };
                rep.violations.push(Violation {
                    kind: "internal".into(),
                    detail: format!("loom panicked in iteration {} with an unexpected {:?}: {}", run.iterations + 1, class, first_line(msg)),
                    known,
                    evidence: json!({"iteration": run.iterations + 1, "history": history_text(&h), "history_events": h, "message": first_line(msg)}),
                });
            }
        }
    }
    // sample
    rep.sample = Some(json!({
        "program": rep.program,
        "loom_status": rep.status,
        "loom_iterations": rep.iterations,
        "loom_outcomes": c.outcomes.keys().take(12).collect::<Vec<_>>(),
        "reference_outcomes": ws.as_ref().map(|w| w.outcomes.keys().take(12).cloned().collect::<Vec<_>>()),
    }));
    rep
}

fn first_line(s: &str) -> String {
    s.lines().next().unwrap_or("").chars().take(200).collect()
}

pub fn same_class(a: &FailClass, b: &FailClass) -> bool {
    match (a, b) {
        (FailClass::Leak(_), FailClass::Leak(_)) => true,
        (FailClass::UserPanic(_), FailClass::UserPanic(_)) => true,
        _ => a == b,
    }
}

/// A race report is justified if, after replaying the completed ops, the access that panicked
/// (or any pending non-blocking access) races under the smallest hb.
fn justify_race(p: &Program, h: &[HEv], may: &MachineCfg) -> Result<bool, String> {
    // find the op that was unwound first
    let origin = h.iter().find(|e| e.kind == HK::Unwind).map(|e| (e.tid, e.pc));
    // history of completed ops only, plus (as if returned) the origin op
    let mut hh: Vec<HEv> = h.iter().filter(|e| e.kind != HK::Unwind).cloned().collect();
    if let Some((t, pc)) = origin {
        let op = &p.threads[t as usize][pc as usize];
        // value-returning ops cannot be completed without a value; their access is still an event:
        // use the no-result form (the machine only needs the access)
        if !op.has_result() {
            hh.push(HEv { tid: t, pc, kind: HK::Ret, res: None });
            return replay_may_any(p, &hh, may, true, |a| a.race);
        } else {
            // try every value the op could have returned
            let mut cands: Vec<u64> = vec![0];
            for th in &p.threads {
                for o in th {
                    match o {
                        Op::Store { v, .. } | Op::Swap { v, .. } | Op::AWithMut { v, .. } | Op::CWrite { v, .. } | Op::Send { v, .. } | Op::SendBomb { v, .. } => cands.push(*v),
                        Op::Cas { n, .. } => cands.push(*n),
                        _ => {}
                    }
                }
            }
            cands.extend(p.atomics.iter().cloned());
            cands.sort();
            cands.dedup();
            let mut accepted_any = false;
            let mut first_err: Option<String> = None;
            for v in cands {
                let mut h2 = hh.clone();
                h2.push(HEv { tid: t, pc, kind: HK::Ret, res: Some(v) });
                match replay_may_any(p, &h2, may, true, |a| a.race) {
                    Ok(true) => return Ok(true),
                    Ok(false) => accepted_any = true,
                    Err(e) => {
                        if first_err.is_none() {
                            first_err = Some(e);
                        }
                    }
                }
            }
            if !accepted_any {
                // the completed part of the history is not accepted at all (e.g. a known
                // deviation in it): that is an invalid execution, not an unjustified report
                if let Some(e) = first_err {
                    return Err(e);
                }
            }
            return Ok(false);
        }
    }
    replay_may_any(p, &hh, may, true, |a| a.race)
}
