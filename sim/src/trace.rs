//! Run a program under loom and keep a compact trace of the whole exploration (used by the
//! metamorphic / fault checks, which compare loom with itself).

use crate::cases::*;
use crate::dsl::*;
use crate::interp::*;
use std::cell::RefCell;
use std::collections::{BTreeMap, BTreeSet};
use std::rc::Rc;

#[derive(Default, Clone, Debug)]
pub struct Trace {
    /// per completed iteration: hash of its history
    pub iter_hashes: Vec<u64>,
    /// per completed iteration: hash of its decision path
    pub path_hashes: Vec<u64>,
    /// per completed iteration: outcome text
    pub outcomes: Vec<String>,
    pub outcome_set: BTreeSet<String>,
    /// (tid, pc) -> iterations (1-based) that invoked it
    pub reached: BTreeMap<(u8, u16), Vec<usize>>,
    /// longest decision path of a completed iteration
    pub max_path: usize,
    /// thread ids observed per iteration did not match "ThreadId(<dsl thread>)"
    pub bad_tids: Option<(usize, Vec<(u8, String)>)>,
    /// full histories (only kept when asked for)
    pub histories: Vec<History>,
    pub paths: Vec<Vec<loom::verif::Branch>>,
}

impl Trace {
    pub fn seq_hash(&self) -> u64 {
        let mut h: u64 = 0;
        for x in &self.iter_hashes {
            h = h.wrapping_mul(0x100000001b3) ^ x;
        }
        h
    }
}

pub fn trace_run(p: &Program, cfg: &Config) -> (LoomRun, Trace) {
    trace_run_opt(p, cfg, false)
}

pub fn trace_run_opt(p: &Program, cfg: &Config, keep: bool) -> (LoomRun, Trace) {
    let tr = Rc::new(RefCell::new(Trace::default()));
    let t2 = tr.clone();
    let p2 = p.clone();
    let run = run_loom(p, cfg, move |h, tids, path| {
        let mut t = t2.borrow_mut();
        t.max_path = t.max_path.max(path.len());
        let it = t.iter_hashes.len() + 1;
        t.iter_hashes.push(hist_hash(h));
        t.path_hashes.push(full_path_hash(path));
        let out = crate::machine::outcome_string(&p2, &results_from_history(&p2, h));
        t.outcome_set.insert(out.clone());
        t.outcomes.push(out);
        for e in h {
            if e.kind == HK::Inv {
                t.reached.entry((e.tid, e.pc)).or_default().push(it);
            }
        }
        if t.bad_tids.is_none() {
            for (dsl, id) in tids {
                if *id != format!("ThreadId({})", dsl) {
                    t.bad_tids = Some((it, tids.to_vec()));
                }
            }
        }
        if keep {
            t.histories.push(h.clone());
            t.paths.push(path.to_vec());
        }
    });
    // the failing iteration (if any) also reached some ops
    if let Some(h) = &run.failing_history {
        let mut t = tr.borrow_mut();
        let it = t.iter_hashes.len() + 1;
        for e in h {
            if e.kind == HK::Inv {
                t.reached.entry((e.tid, e.pc)).or_default().push(it);
            }
        }
    }
    let t = std::mem::take(&mut *tr.borrow_mut());
    if std::env::var("VERIF_DEBUG_DIRTY").is_ok() {
        eprintln!("trace_run: status {:?} iterations {} max_branches {} panicking_after {}", status_text(&run.status), run.iterations, cfg.max_branches, std::thread::panicking());
    }
    (run, t)
}

pub fn status_text(s: &LoomStatus) -> String {
    match s {
        LoomStatus::Completed => "completed".into(),
        LoomStatus::Capped => "capped".into(),
        LoomStatus::Failed { class, .. } => format!("failed:{:?}", class),
    }
}
