mod cases;
mod checks;
mod dsl;
mod fault;
mod gen;
mod graph;
mod interp;
mod machine;
mod meta;
mod oracle;
mod rng;
mod selftest;
mod shrink;
mod sup;
mod trace;

use std::env;

fn usage() -> ! {
    eprintln!(
        "usage:\n  sim check <ID> <quick|thorough>\n  sim worker <ID> <tier> <seed> <stride> <offset> <runs>\n  sim one <ID> <tier> <seed> <run>\n  sim replay <file>\n  sim selftest"
    );
    std::process::exit(2);
}

fn main() {
    let args: Vec<String> = env::args().collect();
    if args.len() < 2 {
        usage();
    }
    match args[1].as_str() {
        "check" => {
            if args.len() < 4 {
                usage();
            }
            std::process::exit(sup::supervise(&args[2], &args[3]));
        }
        "worker" => {
            if args.len() < 8 {
                usage();
            }
            sup::worker(
                &args[2],
                &args[3],
                args[4].parse().unwrap(),
                args[5].parse().unwrap(),
                args[6].parse().unwrap(),
                args[7].parse().unwrap(),
            );
        }
        "one" => {
            if args.len() < 6 {
                usage();
            }
            sup::one(&args[2], &args[3], args[4].parse().unwrap(), args[5].parse().unwrap());
        }
        "replay" => {
            if args.len() < 3 {
                usage();
            }
            std::process::exit(sup::replay(&args[2]));
        }
        "selftest" => {
            std::process::exit(selftest::selftest());
        }
        "prog" => {
            // sim prog <check> <tier> <program.json>: judge a hand-written program
            if args.len() < 5 {
                usage();
            }
            std::process::exit(sup::judge_file(&args[2], &args[3], &args[4]));
        }
        "shrink" => {
            if args.len() < 4 {
                usage();
            }
            std::process::exit(sup::shrink_file(&args[2], &args[3]));
        }
        "sig" => {
            if args.len() < 3 {
                usage();
            }
            std::process::exit(meta::sig_main(&args[2]));
        }
        "replay-inner" => {
            if args.len() < 3 {
                usage();
            }
            std::process::exit(sup::replay_inner(&args[2]));
        }
        _ => usage(),
    }
}
