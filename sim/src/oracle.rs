//! Oracles: O1 completeness (MUST-walk outcomes ⊆ loom outcomes), O2 validity (every loom history
//! is accepted by the MAY machine + ∃mo), O3 failure exactness (a reported failure is justified by
//! the MAY machine; a failure found by a MUST walk must be reported).

use crate::dsl::*;
use crate::graph::*;
use crate::interp::{FailClass, HEv, HK};
use crate::machine::*;
use crate::rng::Rng;
use std::collections::BTreeMap;

#[derive(Clone, Debug)]
pub struct Accept {
    /// data race present under the smallest hb
    pub race: bool,
    /// data race present even under the largest hb
    pub race_large: bool,
    /// no thread can step (strictly: without MAY-only spurious allowances) and some are unfinished
    pub deadlocked: bool,
    /// some lock is poisoned at the end of the replay
    pub poisoned: bool,
    pub all_done: bool,
    pub leak: Option<String>,
    pub leaks: Vec<String>,
    pub results: Vec<Vec<Option<u64>>>,
}

/// One guided replay of a loom history on the MAY machine following `ch` for ambiguous choices.
fn replay_once<'p>(p: &'p Program, hist: &[HEv], cfg: &MachineCfg, partial: bool, ch: &mut dyn Choose) -> Result<Accept, String> {
    let mut m = Machine::new(p, cfg.clone(), true);
    let nt = p.n_threads();
    // threads with an invoked compound op whose hidden first phase has not fired yet
    let mut invoked: Vec<Option<usize>> = vec![None; nt];
    for ev in hist {
        // hidden steps may fire before any event
        for u in 0..nt {
            if let Some(pc) = invoked[u] {
                if m.pc(u) == pc && hidden_phase_pending(&m, u) && m.enabled(u) && ch.choose(2) == 1 {
                    step_checked(&mut m, u, None, ch)?;
                }
            }
        }
        let t = ev.tid as usize;
        match ev.kind {
            HK::Inv => {
                if !m.thread_started(t) {
                    return Err(format!("T{} runs before it was spawned", t));
                }
                if m.pc(t) != ev.pc as usize {
                    return Err(format!("T{} invoked op {} but the reference is at {}", t, ev.pc, m.pc(t)));
                }
                invoked[t] = Some(ev.pc as usize);
            }
            HK::Spin if m.is_wait_until(t) => {
                // a check of the predicate that failed: the wait that preceded it (if any) is over
                advance_wait(&mut m, t, ch)?;
                let done = step_checked(&mut m, t, ev.res, ch)?;
                if done {
                    return Err(format!("T{} pc{}: the predicate loop went on although it read the awaited value", t, ev.pc));
                }
            }
            HK::Spin => {
                if m.is_block_on(t) {
                    // a poll that returned Pending after reading the logged value
                    advance_hidden(&mut m, t, ch)?;
                    step_checked(&mut m, t, ev.res, ch)?;
                } else {
                    // a failed spin iteration of Await: a plain read of the logged value
                    m.spin_read(t, ev.res.unwrap(), ch).map_err(|e| match e {
                        StepErr::Reject(r) => r,
                    })?;
                }
            }
            HK::Unwind | HK::Note => {}
            HK::Ret => {
                if m.pc(t) != ev.pc as usize {
                    return Err(format!("T{} returned from op {} but the reference is at {}", t, ev.pc, m.pc(t)));
                }
                if m.is_wait_until(t) {
                    advance_wait(&mut m, t, ch)?;
                    let want = m.wait_until_value(t);
                    let done = step_checked(&mut m, t, want, ch)?;
                    if !done {
                        return Err(format!("T{} pc{}: the predicate loop ended although its last check cannot have read the awaited value", t, ev.pc));
                    }
                    invoked[t] = None;
                    continue;
                }
                if m.is_block_on2(t) {
                    // every load of a two-flag future is logged; the last poll must have seen both
                    if !m.block_on2_ready(t) {
                        return Err(format!("T{} pc{}: block_on returned although its last poll did not find both flags set", t, ev.pc));
                    }
                    step_checked(&mut m, t, None, ch)?;
                    invoked[t] = None;
                    continue;
                }
                if m.is_block_on(t) {
                    // the final poll read the awaited value
                    advance_hidden(&mut m, t, ch)?;
                    let want = m.block_on_value(t);
                    let done = step_checked(&mut m, t, want, ch)?;
                    if !done {
                        return Err(format!("T{} pc{}: block_on returned although its last poll cannot have been Ready", t, ev.pc));
                    }
                    invoked[t] = None;
                    continue;
                }
                if hidden_phase_pending(&m, t) {
                    step_checked(&mut m, t, None, ch)?;
                }
                if !m.enabled(t) {
                    return Err(format!(
                        "T{} pc{} {} returned although it cannot complete here",
                        t,
                        ev.pc,
                        p.threads[t][ev.pc as usize]
                    ));
                }
                let done = step_checked(&mut m, t, ev.res, ch)?;
                if !done {
                    return Err(format!("T{} pc{}: op did not complete in one step", t, ev.pc));
                }
                invoked[t] = None;
            }
        }
    }
    // end of history: fire remaining hidden phases (the thread is inside the op)
    for u in 0..nt {
        if invoked[u].is_some() && m.is_wait_until(u) {
            // after a failed check the thread has enqueued itself and waits
            if m.wait_until_must_enqueue(u) {
                step_checked(&mut m, u, None, ch)?;
            }
            continue;
        }
        if invoked[u].is_some() && hidden_phase_pending(&m, u) && !m.is_block_on(u) {
            step_checked(&mut m, u, None, ch)?;
        }
        if invoked[u].is_some() && m.is_block_on(u) {
            // a thread stuck in block_on: after a Pending poll it registers (if it had not) and waits
            while m.block_on_can_advance_to_wait(u) {
                step_checked(&mut m, u, None, ch)?;
            }
        }
    }
    if !partial {
        for t in 0..nt {
            if m.thread_started(t) && !m.thread_done(t) {
                return Err(format!("iteration ended but T{} has not finished in the reference", t));
            }
        }
    }
    // memory-model consistency: ∃ mo
    if m.g.exists_mo(cfg.reading, cfg.dev).is_none() {
        return Err("no modification order makes the returned values consistent (coherence / atomicity / SC fences)".into());
    }
    let hb = m.g.hb(cfg.reading);
    let race = m.g.find_race(&hb).is_some();
    let race_large = if m.has_na_events() { m.g.find_race(&m.hb_large()).is_some() } else { false };
    if m.cell_mismatch && !race {
        return Err("an UnsafeCell read returned something else than the latest write although all accesses to the cell are ordered by happens-before".into());
    }
    let all_done = m.all_done();
    let mut any_enabled = false;
    for t in 0..nt {
        if m.enabled_strict(t) {
            any_enabled = true;
        }
    }
    Ok(Accept { race, race_large, deadlocked: !any_enabled && !all_done, poisoned: m.any_lock_poisoned(), all_done, leak: if all_done { m.leak() } else { None }, leaks: if all_done { m.leaks() } else { vec![] }, results: m.results.clone() })
}

/// fire the hidden sub-steps of a predicate-loop wait (enqueue, wake-up) until its next check
fn advance_wait(m: &mut Machine<'_>, t: usize, ch: &mut dyn Choose) -> Result<(), String> {
    let mut guard = 0;
    while !m.wait_until_at_check(t) {
        if !m.enabled(t) {
            return Err(format!("T{}: the wait inside the predicate loop returned although nothing can have woken it here", t));
        }
        step_checked(m, t, None, ch)?;
        guard += 1;
        if guard > 4 {
            return Err("wait phases do not converge".into());
        }
    }
    Ok(())
}

/// fire the hidden sub-steps of a block_on (registration, wake-up) until its next poll
fn advance_hidden(m: &mut Machine<'_>, t: usize, ch: &mut dyn Choose) -> Result<(), String> {
    let mut guard = 0;
    while m.in_compound_first_phase(t) {
        if !m.enabled(t) {
            return Err(format!("T{}: block_on polled again although it was neither woken nor (once) spuriously resumed", t));
        }
        step_checked(m, t, None, ch)?;
        guard += 1;
        if guard > 8 {
            return Err("block_on hidden steps do not converge".into());
        }
    }
    Ok(())
}

fn hidden_phase_pending(m: &Machine<'_>, t: usize) -> bool {
    m.in_compound_first_phase(t)
}

fn step_checked(m: &mut Machine<'_>, t: usize, exp: Option<u64>, ch: &mut dyn Choose) -> Result<bool, String> {
    match m.step(t, exp, ch) {
        Ok(b) => Ok(b),
        Err(StepErr::Reject(r)) => Err(r),
    }
}

/// O2: is the history accepted by the MAY machine? DFS over the ambiguous choices.
/// `partial`: the history is a prefix (failing iteration).
pub fn replay_may(p: &Program, hist: &[HEv], cfg: &MachineCfg, partial: bool) -> Result<Accept, String> {
    let mut sc = ScriptChoose::default();
    let mut first_err: Option<String> = None;
    let mut tries = 0;
    loop {
        sc.taken.clear();
        match replay_once(p, hist, cfg, partial, &mut sc) {
            Ok(a) => return Ok(a),
            Err(e) => {
                if first_err.is_none() {
                    first_err = Some(e);
                }
            }
        }
        tries += 1;
        if !sc.next_script() {
            // every placement of the hidden steps / ambiguous choices was tried
            return Err(first_err.unwrap());
        }
        if tries > max_tries() {
            // search budget exhausted: NOT a verdict (an exhausted budget must never be reported
            // as a violation); counted as a probe
            REPLAY_INCONCLUSIVE.with(|c| c.set(c.get() + 1));
            return Ok(Accept { race: false, race_large: false, deadlocked: false, poisoned: false, all_done: false, leak: None, leaks: vec![], results: vec![] });
        }
    }
}

thread_local! {
    /// replays that ran out of search budget (neither accepted nor rejected)
    pub static REPLAY_INCONCLUSIVE: std::cell::Cell<u64> = std::cell::Cell::new(0);
}

fn max_tries() -> usize {
    std::env::var("VERIF_REPLAY_TRIES").ok().and_then(|s| s.parse().ok()).unwrap_or(200_000)
}

/// All acceptable replays (used when several justifications must be considered, e.g. deadlock).
pub fn replay_may_any(p: &Program, hist: &[HEv], cfg: &MachineCfg, partial: bool, pred: impl Fn(&Accept) -> bool) -> Result<bool, String> {
    let mut sc = ScriptChoose::default();
    let mut first_err: Option<String> = None;
    let mut accepted = false;
    let mut tries = 0;
    loop {
        sc.taken.clear();
        match replay_once(p, hist, cfg, partial, &mut sc) {
            Ok(a) => {
                accepted = true;
                if pred(&a) {
                    return Ok(true);
                }
            }
            Err(e) => {
                if first_err.is_none() {
                    first_err = Some(e);
                }
            }
        }
        tries += 1;
        if !sc.next_script() {
            return if accepted { Ok(false) } else { Err(first_err.unwrap()) };
        }
        if tries > max_tries() {
            // budget exhausted: inconclusive, never a violation
            REPLAY_INCONCLUSIVE.with(|c| c.set(c.get() + 1));
            return Ok(true);
        }
    }
}

#[derive(Clone, Debug)]
pub struct WalkSet {
    /// outcome -> schedule of the first walk that produced it (Done walks only)
    pub outcomes: BTreeMap<String, Vec<(u8, u16)>>,
    /// failing terminals found -> schedule
    pub failures: BTreeMap<String, (Terminal, Vec<(u8, u16)>)>,
    pub walks: usize,
    pub steps: usize,
    pub distinct_schedules: std::collections::BTreeSet<u64>,
    pub probe_load_multi: u64,
    pub probe_woken: u64,
    pub probe_rmw_nonlatest: u64,
}

/// Seeded MUST walks: start at `n0`, double while the last half found something new, cap `cap`.
pub fn must_walks(p: &Program, cfg: &MachineCfg, rng: &mut Rng, n0: usize, cap: usize) -> WalkSet {
    let mut ws = WalkSet {
        outcomes: BTreeMap::new(),
        failures: BTreeMap::new(),
        walks: 0,
        steps: 0,
        distinct_schedules: Default::default(),
        probe_load_multi: 0,
        probe_woken: 0,
        probe_rmw_nonlatest: 0,
    };
    let mut target = n0;
    let mut last_new_at = 0usize;
    let strategies = [Strategy::Uniform, Strategy::RunToBlock, Strategy::Pct];
    while ws.walks < target {
        let strat = strategies[ws.walks % 3];
        let mut m = Machine::new(p, cfg.clone(), false);
        let r = random_walk(&mut m, rng, strat);
        ws.walks += 1;
        ws.steps += r.steps;
        ws.probe_load_multi += m.probe_load_multi as u64;
        ws.probe_woken += m.probe_blocked_then_woken as u64;
        ws.probe_rmw_nonlatest += m.probe_rmw_nonlatest as u64;
        let sh = crate::rng::hash_bytes(&r.schedule.iter().flat_map(|&(t, pc)| [t, pc as u8]).collect::<Vec<u8>>());
        ws.distinct_schedules.insert(sh);
        let new = match r.terminal {
            Terminal::Done => {
                if !ws.outcomes.contains_key(&r.outcome) {
                    ws.outcomes.insert(r.outcome, r.schedule);
                    true
                } else {
                    false
                }
            }
            ref t => {
                let key = format!("{:?}", t);
                if !ws.failures.contains_key(&key) {
                    ws.failures.insert(key, (t.clone(), r.schedule));
                    true
                } else {
                    false
                }
            }
        };
        if new {
            last_new_at = ws.walks;
        }
        if ws.walks == target && target < cap && last_new_at > target / 2 {
            target = (target * 2).min(cap);
        }
    }
    ws
}

/// Enumerate ALL walks of the machine depth-first (attribution of known findings only).
/// Returns None if more than `limit` walks would be needed.
pub fn enumerate_walks(p: &Program, cfg: &MachineCfg, limit: usize) -> Option<WalkSet> {
    let mut ws = WalkSet {
        outcomes: BTreeMap::new(),
        failures: BTreeMap::new(),
        walks: 0,
        steps: 0,
        distinct_schedules: Default::default(),
        probe_load_multi: 0,
        probe_woken: 0,
        probe_rmw_nonlatest: 0,
    };
    let mut sc = ScriptChoose::default();
    loop {
        sc.taken.clear();
        let mut m = Machine::new(p, cfg.clone(), false);
        let nt = p.n_threads();
        let mut steps = 0;
        let mut last: Option<usize> = None;
        loop {
            let en: Vec<usize> = (0..nt).filter(|&t| m.enabled(t)).collect();
            if en.is_empty() {
                break;
            }
            let forced = match last {
                Some(l) if cfg.switch_only_at_branch_points && en.contains(&l) && m.next_is_nonbranching(l) => Some(l),
                _ => None,
            };
            let t = match forced {
                Some(l) => l,
                None => en[sc.choose(en.len())],
            };
            last = Some(t);
            let was_na = m.has_na_events();
            if m.step(t, None, &mut sc).is_err() {
                panic!("enumeration step rejected");
            }
            steps += 1;
            if (was_na || m.has_na_events()) && m.check_race_now() {
                break;
            }
            if steps > 10_000 {
                panic!("enumeration walk did not terminate");
            }
        }
        ws.walks += 1;
        match m.terminal() {
            Terminal::Done => {
                ws.outcomes.entry(m.outcome()).or_insert_with(|| m.trace.clone());
            }
            t => {
                ws.failures.entry(format!("{:?}", t)).or_insert_with(|| (t.clone(), m.trace.clone()));
            }
        }
        if ws.walks > limit {
            return None;
        }
        if !sc.next_script() {
            return Some(ws);
        }
    }
}

/// Parse the canonical outcome text back into per-op results.
pub fn parse_outcome(p: &Program, s: &str) -> Vec<Vec<Option<u64>>> {
    let mut res: Vec<Vec<Option<u64>>> = p.threads.iter().map(|t| vec![None; t.len()]).collect();
    for tok in s.split_whitespace() {
        let (lhs, rhs) = tok.split_once('=').unwrap();
        let (t, pc) = lhs[1..].split_once('.').unwrap();
        let v = match rhs {
            "-" => None,
            "ERR" => Some(R_ERR),
            "EMPTY" => Some(R_EMPTY),
            x => Some(x.parse().unwrap()),
        };
        res[t.parse::<usize>().unwrap()][pc.parse::<usize>().unwrap()] = v;
    }
    res
}

/// Guided reachability: can the machine (under `cfg`) finish with exactly the results `target`?
/// Depth-first over all choices, pruning a path as soon as a completed op disagrees with the
/// target. Used only to attribute a missing outcome to a known finding's deviation.
/// None = step budget exhausted.
pub fn outcome_reachable(p: &Program, cfg: &MachineCfg, target: &[Vec<Option<u64>>], budget: usize) -> Option<bool> {
    let mut sc = ScriptChoose::default();
    let mut total_steps = 0usize;
    let nt = p.n_threads();
    loop {
        sc.taken.clear();
        let mut m = Machine::new(p, cfg.clone(), false);
        let mut last: Option<usize> = None;
        let mut pruned = false;
        loop {
            let en: Vec<usize> = (0..nt).filter(|&t| m.enabled(t)).collect();
            if en.is_empty() {
                break;
            }
            let forced = match last {
                Some(l) if cfg.switch_only_at_branch_points && en.contains(&l) && m.next_is_nonbranching(l) => Some(l),
                _ => None,
            };
            let t = match forced {
                Some(l) => l,
                None => en[sc.choose(en.len())],
            };
            last = Some(t);
            let pc = m.pc(t);
            let done = match m.step(t, None, &mut sc) {
                Ok(d) => d,
                Err(_) => panic!("reachability step rejected"),
            };
            total_steps += 1;
            if done && p.threads[t][pc].has_result() && m.results[t][pc] != target[t][pc] {
                pruned = true;
                break;
            }
            if total_steps > budget {
                return None;
            }
        }
        if !pruned && m.all_done() && m.results.as_slice() == target {
            return Some(true);
        }
        if !sc.next_script() {
            return Some(false);
        }
    }
}

pub fn class_of_terminal(t: &Terminal) -> Option<FailClass> {
    match t {
        Terminal::Done => None,
        Terminal::Deadlock => Some(FailClass::Deadlock),
        Terminal::Race => Some(FailClass::Race),
        Terminal::Leak(k) => Some(FailClass::Leak(k.clone())),
        Terminal::Livelock => Some(FailClass::BranchLimit),
        Terminal::Poison => Some(FailClass::Poison),
    }
}

pub fn _unused(_: &Rel) {}

// ------------------------------------------------------------------------------------------
// O4: independent re-implementation of the depth-first stepping rule over hook records.

use loom::verif::{Branch, ThreadStatus};

fn chosen(b: &Branch) -> (u8, i32) {
    match b {
        Branch::Schedule { active, .. } => (0, active.map(|x| x as i32).unwrap_or(-1)),
        Branch::Load { pos, .. } => (1, *pos as i32),
        Branch::Spurious { spur, .. } => (2, *spur as i32),
    }
}

/// Does the branch (as recorded at the END of its iteration) still have an unexplored alternative?
fn has_open_alternative(b: &Branch) -> bool {
    match b {
        Branch::Schedule { threads, exploring, .. } => *exploring && threads.iter().any(|t| *t == ThreadStatus::Pending),
        Branch::Load { values, pos, exploring } => *exploring && (*pos as usize) + 1 < values.len(),
        Branch::Spurious { spur, exploring } => *exploring && !*spur,
    }
}

/// index of the deepest branch with an open alternative
pub fn o4_first_open(path: &[Branch]) -> Option<usize> {
    (0..path.len()).rev().find(|&i| has_open_alternative(&path[i]))
}

/// `cur` must be the depth-first successor of `prev`.
pub fn o4_step(prev: &[Branch], cur: &[Branch]) -> Result<(), String> {
    let b = match o4_first_open(prev) {
        Some(b) => b,
        None => return Err("the previous path had no unexplored alternative, yet another iteration ran".into()),
    };
    if cur.len() <= b {
        return Err(format!("the new path is shorter ({}) than the branch that had to be advanced ({})", cur.len(), b));
    }
    for i in 0..b {
        if chosen(&prev[i]) != chosen(&cur[i]) {
            return Err(format!("branch {} (before the advanced branch {}) changed from {:?} to {:?}", i, b, chosen(&prev[i]), chosen(&cur[i])));
        }
    }
    match (&prev[b], &cur[b]) {
        (Branch::Schedule { threads: pt, .. }, Branch::Schedule { threads: ct, active, .. }) => {
            let next = pt.iter().position(|t| *t == ThreadStatus::Pending).unwrap();
            if *active != Some(next as u8) {
                return Err(format!("schedule branch {}: expected thread {} (first pending) to run next, got {:?}", b, next, active));
            }
            for (i, t) in pt.iter().enumerate() {
                if matches!(t, ThreadStatus::Visited | ThreadStatus::Active) && ct[i] != ThreadStatus::Visited {
                    return Err(format!("schedule branch {}: thread {} was explored before but is {:?} now", b, i, ct[i]));
                }
            }
        }
        (Branch::Load { pos: pp, values: pv, .. }, Branch::Load { pos: cp, values: cv, .. }) => {
            if *cp != *pp + 1 || pv != cv {
                return Err(format!("load branch {}: expected candidate {} of {:?}, got {} of {:?}", b, pp + 1, pv, cp, cv));
            }
        }
        (Branch::Spurious { .. }, Branch::Spurious { spur, .. }) => {
            if !*spur {
                return Err(format!("spurious branch {} not advanced", b));
            }
        }
        _ => return Err(format!("branch {} changed kind", b)),
    }
    Ok(())
}

// ------------------------------------------------------------------------------------------
// thread_local! / lazy_static! life-cycle validation over the harness notes of one iteration

pub fn check_tls_lazy(p: &Program, hist: &[HEv]) -> Result<(), String> {
    use crate::interp::*;
    let nt = p.n_threads();
    // positions
    let mut last_ret = vec![None; nt];
    for (i, e) in hist.iter().enumerate() {
        if e.kind == HK::Ret {
            last_ret[e.tid as usize] = Some(i);
        }
    }
    let mut tls_init = vec![[0usize; 2]; nt];
    let mut tls_drop = vec![[0usize; 2]; nt];
    let mut lazy_inits: Vec<Vec<u64>> = vec![Vec::new(); 2];
    let mut lazy_seen: Vec<Vec<(u64, u8)>> = vec![Vec::new(); 2];
    let mut lazy_drops: Vec<Vec<(u64, usize)>> = vec![Vec::new(); 2];
    for (i, e) in hist.iter().enumerate() {
        if e.kind != HK::Note {
            continue;
        }
        let code = e.res.unwrap_or(0) % 16;
        let stamp = e.res.unwrap_or(0) / 16;
        let k = e.pc as usize;
        match code {
            NOTE_TLS_INIT => {
                let t = e.tid as usize;
                tls_init[t][k] += 1;
                if tls_init[t][k] > 1 {
                    return Err(format!("thread-local k{} was initialised twice on T{}", k, t));
                }
            }
            NOTE_TLS_DROP => {
                let t = e.tid as usize;
                tls_drop[t][k] += 1;
                if tls_drop[t][k] > tls_init[t][k] {
                    return Err(format!("thread-local k{} of T{} was dropped more often than initialised", k, t));
                }
                // dropped when the thread finishes: after its last op
                let total = p.threads[t].len();
                let done = hist[..i].iter().filter(|x| x.kind == HK::Ret && x.tid as usize == t).count();
                if done < total {
                    return Err(format!("thread-local k{} of T{} was dropped before the thread finished ({} of {} ops done)", k, t, done, total));
                }
            }
            NOTE_TLS_DROP_SAW_OTHER_ALIVE => {
                return Err(format!("T{}: while thread-local k{} was being destroyed, try_with on the thread's other (initialised) thread-local did not report AccessError", e.tid, k));
            }
            NOTE_LAZY_INIT => lazy_inits[k].push(stamp),
            NOTE_LAZY_SEEN => lazy_seen[k].push((stamp, e.tid)),
            NOTE_LAZY_DROP => lazy_drops[k].push((stamp, i)),
            _ => {}
        }
    }
    for t in 0..nt {
        for k in 0..2 {
            if tls_drop[t][k] != tls_init[t][k] {
                return Err(format!("thread-local k{} of T{} was initialised {} times but dropped {} times by the end of the iteration", k, t, tls_init[t][k], tls_drop[t][k]));
            }
            // initialised iff the thread accessed it
            let accessed = p.threads[t].iter().enumerate().any(|(pc, op)| {
                let done = hist.iter().any(|x| x.kind == HK::Ret && x.tid as usize == t && x.pc as usize == pc);
                done && match op {
                    Op::TlsWith { k: kk } => *kk as usize == k,
                    Op::TlsNested { k: a, j: b } => *a as usize == k || *b as usize == k,
                    _ => false,
                }
            });
            if accessed != (tls_init[t][k] == 1) {
                return Err(format!("thread-local k{} of T{}: accessed = {}, initialised = {}", k, t, accessed, tls_init[t][k]));
            }
        }
    }
    for k in 0..2 {
        if lazy_seen[k].is_empty() {
            continue;
        }
        let s0 = lazy_seen[k][0].0;
        if let Some((s, t)) = lazy_seen[k].iter().find(|(s, _)| *s != s0) {
            return Err(format!("lazy static z{}: T{} saw instance #{} while another access saw instance #{}", k, t, s, s0));
        }
        if !lazy_inits[k].contains(&s0) {
            return Err(format!("lazy static z{}: the instance seen (#{}) was not created in this iteration", k, s0));
        }
        let n_drop = lazy_drops[k].iter().filter(|(s, _)| *s == s0).count();
        if n_drop != 1 {
            return Err(format!("lazy static z{}: the installed instance was dropped {} times by the end of the iteration", k, n_drop));
        }
        // dropped at the end of the iteration: after every access
        let (_, di) = lazy_drops[k].iter().find(|(s, _)| *s == s0).unwrap();
        let last_seen = hist.iter().rposition(|x| x.kind == HK::Note && x.pc as usize == k && x.res.unwrap_or(0) % 16 == NOTE_LAZY_SEEN).unwrap();
        if *di < last_seen {
            return Err(format!("lazy static z{}: dropped before its last access", k));
        }
    }
    let _ = last_ret;
    Ok(())
}
