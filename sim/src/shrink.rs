//! Minimisation of a failing case: delta debugging on the program while the same oracle keeps
//! failing with the same violation kind. The judge is a pure function of (check, tier, case, seed,
//! run), so the predicate is deterministic.

use crate::checks::{judge, Case};
use crate::dsl::*;

fn fix_ifs_after_removal(ops: &mut Vec<Op>, removed: usize) -> bool {
    // returns false if some If referred to the removed op (then the candidate is invalid)
    for op in ops.iter_mut() {
        if let Op::If { pc, .. } = op {
            let p = *pc as usize;
            if p == removed {
                return false;
            }
            if p > removed {
                *pc -= 1;
            }
        }
    }
    true
}

fn drop_thread(p: &Program, t: usize) -> Option<Program> {
    if t == 0 || t >= p.threads.len() {
        return None;
    }
    let mut q = p.clone();
    q.threads.remove(t);
    // remove spawn/join/unpark of t, renumber higher threads
    for th in q.threads.iter_mut() {
        let mut i = 0;
        while i < th.len() {
            let kill = matches!(&th[i], Op::Spawn { t: x } | Op::Join { t: x } | Op::Unpark { t: x } if *x as usize == t);
            if kill {
                th.remove(i);
                if !fix_ifs_after_removal(th, i) {
                    return None;
                }
            } else {
                i += 1;
            }
        }
        for op in th.iter_mut() {
            match op {
                Op::Spawn { t: x } | Op::Join { t: x } | Op::Unpark { t: x } => {
                    if *x as usize > t {
                        *x -= 1;
                    }
                }
                _ => {}
            }
        }
    }
    for owners in q.arcs.iter_mut() {
        owners.retain(|&o| o as usize != t);
        for o in owners.iter_mut() {
            if *o as usize > t {
                *o -= 1;
            }
        }
    }
    Some(q)
}

fn drop_op(p: &Program, t: usize, pc: usize) -> Option<Program> {
    let op = &p.threads[t][pc];
    if matches!(op, Op::Spawn { .. } | Op::Join { .. }) {
        return None;
    }
    let mut q = p.clone();
    q.threads[t].remove(pc);
    if !fix_ifs_after_removal(&mut q.threads[t], pc) {
        return None;
    }
    Some(q)
}

pub struct Shrunk {
    pub case: Case,
    pub evaluations: usize,
    pub ops_before: usize,
    pub ops_after: usize,
}

/// Shrink while a violation of kind `kind` (with the same known-finding attribution) persists.
/// the wording of a violation without the numbers and names in it: "the same violation" for the
/// shrinker means same kind and same shape
pub fn shape(detail: &str) -> String {
    let mut out = String::new();
    for w in detail.split_whitespace() {
        if w.chars().any(|c| c.is_ascii_digit()) || w.starts_with('[') || w.ends_with(']') {
            continue;
        }
        out.push_str(w);
        out.push(' ');
        if out.len() > 70 {
            break;
        }
    }
    out
}

pub fn shrink(check: &str, tier: &str, case: &Case, seed: u64, run: u64, kind: &str, detail: &str, known: Option<&str>, budget: usize) -> Shrunk {
    let want_shape = shape(detail);
    let mut cur = Case { program: case.program.clone(), config: case.config.clone() };
    let ops_before = cur.program.total_ops();
    let mut evals = 0usize;
    let still_fails = |c: &Case, evals: &mut usize| -> bool {
        *evals += 1;
        let rep = judge(check, tier, c, seed, run);
        rep.violations.iter().any(|v| v.kind == kind && v.known.as_deref() == known && shape(&v.detail) == want_shape)
    };
    let mut progress = true;
    while progress && evals < budget {
        progress = false;
        // whole threads first
        let mut t = cur.program.threads.len();
        while t > 1 {
            t -= 1;
            if evals >= budget {
                break;
            }
            if let Some(q) = drop_thread(&cur.program, t) {
                let c = Case { program: q, config: cur.config.clone() };
                if still_fails(&c, &mut evals) {
                    cur = c;
                    progress = true;
                }
            }
        }
        // single ops, last to first
        for t in (0..cur.program.threads.len()).rev() {
            let mut pc = cur.program.threads[t].len();
            while pc > 0 {
                pc -= 1;
                if evals >= budget {
                    break;
                }
                if let Some(q) = drop_op(&cur.program, t, pc) {
                    let c = Case { program: q, config: cur.config.clone() };
                    if still_fails(&c, &mut evals) {
                        cur = c;
                        progress = true;
                    }
                }
            }
        }
    }
    let ops_after = cur.program.total_ops();
    Shrunk { case: cur, evaluations: evals, ops_before, ops_after }
}
