//! Execution graphs and the RC11 axioms (Lahav, Vafeiadis, Kang, Hur, Dreyer: "Repairing
//! Sequential Consistency in C/C++11", PLDI 2017), transcribed directly.
//!
//! Two readings are provided (DESIGN.md section 4.1):
//!   * `Reading::Must`  - the strongest reading: full `psc` for SeqCst accesses, C++11 release
//!     sequences (a later same-thread store continues the sequence). Everything consistent under
//!     this reading is allowed under every reading, so it may be *demanded* of loom.
//!   * `Reading::May`   - the weakest reading the properties permit: SeqCst accesses behave as
//!     acquire/release (only SeqCst fences are totally ordered), C++20 release sequences (RMWs
//!     only). Everything loom returns must be consistent under this reading.
//! Optional deviations weaken `May` / strengthen `Must` to attribute failures to known findings.

use crate::dsl::MO;

pub const MAXE: usize = 128;
pub type Bits = u128;

#[derive(Clone, Copy, PartialEq, Eq, Debug, Hash)]
pub enum EK {
    /// atomic read (load, failed CAS)
    R,
    /// atomic write (store); also the initialisation write
    W,
    /// atomic update (successful RMW): reads `rf` and writes
    U,
    /// fence
    F,
    /// any other event (spawn, join, lock, ... and non-atomic accesses); only carries hb edges
    Sync,
}

#[derive(Clone, Debug)]
pub struct Ev {
    pub tid: u8,
    pub pc: u16,
    pub kind: EK,
    /// location id: atomics are 0..; UnsafeCells are CELL_BASE + index; NOLOC for none
    pub loc: u16,
    pub ord: MO,
    pub rval: u64,
    pub wval: u64,
    /// non-atomic access to `loc` (UnsafeCell access, atomic with_mut / unsync_load)
    pub na: bool,
    /// for `na` events: is it a write
    pub na_write: bool,
}

pub const NOLOC: u16 = u16::MAX;
pub const CELL_BASE: u16 = 1000;
pub const ARC_CELL_BASE: u16 = 2000;
pub const TLS_CELL_BASE: u16 = 3000;
pub const LAZY_CELL_BASE: u16 = 4000;
/// pseudo thread id of initialisation events
pub const INIT_TID: u8 = 255;

#[derive(Clone, Copy, PartialEq, Eq, Debug)]
pub enum Reading {
    Must,
    May,
}

/// Switchable deviations used only to attribute failures to known findings (DESIGN.md section 7).
#[derive(Clone, Copy, PartialEq, Eq, Debug, Default)]
pub struct Deviation {
    /// D-atomicity-vs-plain-store: RMW atomicity is only enforced between RMWs in the form "no
    /// two RMWs read from the same store" (and an RMW is mo-after what it read); other stores may
    /// be modification-ordered between an RMW and the store it read from.
    pub at_ignores_plain_stores: bool,
}

#[derive(Clone, Debug)]
pub struct Rel {
    pub n: usize,
    pub r: Vec<Bits>,
}

impl Rel {
    pub fn new(n: usize) -> Rel {
        Rel { n, r: vec![0; n] }
    }
    #[inline]
    pub fn add(&mut self, a: usize, b: usize) {
        self.r[a] |= 1u128 << b;
    }
    #[inline]
    pub fn has(&self, a: usize, b: usize) -> bool {
        self.r[a] >> b & 1 == 1
    }
    pub fn union_with(&mut self, o: &Rel) {
        for i in 0..self.n {
            self.r[i] |= o.r[i];
        }
    }
    /// transitive closure (Warshall on bit rows)
    pub fn close(&mut self) {
        for k in 0..self.n {
            let rk = self.r[k];
            let bit = 1u128 << k;
            for i in 0..self.n {
                if self.r[i] & bit != 0 {
                    self.r[i] |= rk;
                }
            }
        }
    }
    pub fn compose(&self, o: &Rel) -> Rel {
        let mut out = Rel::new(self.n);
        for i in 0..self.n {
            let mut row = self.r[i];
            let mut acc = 0u128;
            while row != 0 {
                let j = row.trailing_zeros() as usize;
                row &= row - 1;
                acc |= o.r[j];
            }
            out.r[i] = acc;
        }
        out
    }
    pub fn irreflexive(&self) -> bool {
        (0..self.n).all(|i| !self.has(i, i))
    }
    /// reflexive-optional: self ∪ id
    pub fn opt(&self) -> Rel {
        let mut o = self.clone();
        for i in 0..self.n {
            o.add(i, i);
        }
        o
    }
    pub fn restrict_dom(&self, dom: Bits) -> Rel {
        let mut o = self.clone();
        for i in 0..self.n {
            if dom >> i & 1 == 0 {
                o.r[i] = 0;
            }
        }
        o
    }
    pub fn restrict_rng(&self, rng: Bits) -> Rel {
        let mut o = self.clone();
        for i in 0..self.n {
            o.r[i] &= rng;
        }
        o
    }
    pub fn acyclic(&self) -> bool {
        let mut c = self.clone();
        c.close();
        c.irreflexive()
    }
}

#[derive(Clone, Debug, Default)]
pub struct Graph {
    pub evs: Vec<Ev>,
    /// previous event of the same thread
    pub po_prev: Vec<Option<usize>>,
    /// reads-from: for R/U events the write event read
    pub rf: Vec<Option<usize>>,
    /// additional synchronises-with edges (spawn, join, lock hand-over, channel, unpark, ...)
    pub extra: Vec<(usize, usize)>,
    /// last event per thread
    pub last: Vec<Option<usize>>,
    /// modification order per atomic location (total). Only maintained when known (Must walks);
    /// the May checker searches for one.
    pub mo: Vec<Vec<usize>>,
}

impl Graph {
    pub fn new(n_threads: usize, n_locs: usize) -> Graph {
        Graph {
            evs: Vec::new(),
            po_prev: Vec::new(),
            rf: Vec::new(),
            extra: Vec::new(),
            last: vec![None; n_threads],
            mo: vec![Vec::new(); n_locs],
        }
    }

    pub fn n(&self) -> usize {
        self.evs.len()
    }

    /// Append an event of thread `tid` (INIT_TID events have no sb predecessor).
    pub fn push(&mut self, ev: Ev) -> usize {
        let id = self.evs.len();
        assert!(id < MAXE, "event graph too large");
        let prev = if ev.tid == INIT_TID {
            None
        } else {
            let p = self.last[ev.tid as usize];
            self.last[ev.tid as usize] = Some(id);
            p
        };
        self.evs.push(ev);
        self.po_prev.push(prev);
        self.rf.push(None);
        id
    }

    /// Remove the last event (used to undo a tentative step).
    pub fn pop(&mut self) {
        let id = self.evs.len() - 1;
        let ev = self.evs.pop().unwrap();
        let prev = self.po_prev.pop().unwrap();
        self.rf.pop();
        if ev.tid != INIT_TID {
            self.last[ev.tid as usize] = prev;
        }
        self.extra.retain(|&(a, b)| a != id && b != id);
        for m in self.mo.iter_mut() {
            m.retain(|&w| w != id);
        }
    }

    pub fn is_write(&self, e: usize) -> bool {
        matches!(self.evs[e].kind, EK::W | EK::U)
    }
    pub fn is_read(&self, e: usize) -> bool {
        matches!(self.evs[e].kind, EK::R | EK::U)
    }

    /// program order (transitive), including init events before everything of every thread
    pub fn sb(&self) -> Rel {
        let n = self.n();
        let mut sb = Rel::new(n);
        for e in 0..n {
            if let Some(p) = self.po_prev[e] {
                sb.add(p, e);
            }
        }
        sb.close();
        // init events are sb-before all non-init events
        let mut noninit: Bits = 0;
        for e in 0..n {
            if self.evs[e].tid != INIT_TID {
                noninit |= 1 << e;
            }
        }
        for e in 0..n {
            if self.evs[e].tid == INIT_TID {
                sb.r[e] |= noninit;
            }
        }
        sb
    }

    /// synchronises-with edges from atomics (release/acquire, fences, release sequences)
    fn sw_atomic(&self, reading: Reading, sb: &Rel, out: &mut Rel) {
        let n = self.n();
        for r in 0..n {
            if !self.is_read(r) || self.evs[r].na {
                continue;
            }
            let w = match self.rf[r] {
                Some(w) => w,
                None => continue,
            };
            if self.evs[w].na {
                // non-atomic write (with_mut / init): no release semantics of its own
                // (initialisation is ordered by sb/extra edges)
                continue;
            }
            // targets
            let mut tg: Vec<usize> = Vec::new();
            if self.evs[r].ord.is_acq() {
                tg.push(r);
            }
            for f in 0..n {
                if self.evs[f].kind == EK::F && self.evs[f].ord.is_acq() && sb.has(r, f) && self.evs[f].tid == self.evs[r].tid {
                    tg.push(f);
                }
            }
            if tg.is_empty() {
                continue;
            }
            // chain back through RMWs
            let mut srcs: Vec<usize> = Vec::new();
            let mut c = w;
            loop {
                // heads for c
                let mut heads = vec![c];
                if reading == Reading::Must {
                    for e in 0..n {
                        if e != c
                            && self.is_write(e)
                            && !self.evs[e].na
                            && self.evs[e].tid == self.evs[c].tid
                            && self.evs[e].tid != INIT_TID
                            && self.evs[e].loc == self.evs[c].loc
                            && sb.has(e, c)
                        {
                            heads.push(e);
                        }
                    }
                }
                for h in heads {
                    if self.evs[h].tid == INIT_TID {
                        continue;
                    }
                    if self.evs[h].ord.is_rel() {
                        srcs.push(h);
                    }
                    for f in 0..n {
                        if self.evs[f].kind == EK::F
                            && self.evs[f].ord.is_rel()
                            && self.evs[f].tid == self.evs[h].tid
                            && sb.has(f, h)
                        {
                            srcs.push(f);
                        }
                    }
                }
                if self.evs[c].kind == EK::U {
                    match self.rf[c] {
                        Some(p) if !self.evs[p].na => c = p,
                        _ => break,
                    }
                } else {
                    break;
                }
            }
            for &s in &srcs {
                for &t in &tg {
                    if s != t {
                        out.add(s, t);
                    }
                }
            }
        }
    }

    /// happens-before = (sb ∪ sw ∪ extra)+
    pub fn hb(&self, reading: Reading) -> Rel {
        let sb = self.sb();
        self.hb_with_sb(reading, &sb)
    }

    pub fn hb_with_sb(&self, reading: Reading, sb: &Rel) -> Rel {
        let mut hb = sb.clone();
        self.sw_atomic(reading, sb, &mut hb);
        for &(a, b) in &self.extra {
            hb.add(a, b);
        }
        hb.close();
        hb
    }

    /// Coherence + atomicity of one location under a given total modification order `mo`
    /// (a sequence of write events of that location), with hb given.
    pub fn coherent_loc(&self, loc: u16, mo: &[usize], hb: &Rel, dev: Deviation) -> bool {
        let n = self.n();
        let mut pos = [usize::MAX; MAXE];
        for (i, &w) in mo.iter().enumerate() {
            pos[w] = i;
        }
        // CoWW
        for &w1 in mo {
            for &w2 in mo {
                if w1 != w2 && hb.has(w1, w2) && pos[w1] > pos[w2] {
                    return false;
                }
            }
        }
        // readers of this location
        let readers: Vec<usize> = (0..n)
            .filter(|&e| self.is_read(e) && self.evs[e].loc == loc && self.rf[e].is_some())
            .collect();
        for &r in &readers {
            let w1 = self.rf[r].unwrap();
            if pos[w1] == usize::MAX {
                return false;
            }
            // rf;hb irreflexive
            if hb.has(r, w1) {
                return false;
            }
            for &w2 in mo {
                if w2 == w1 || w2 == r {
                    continue;
                }
                // CoWR: a write that happens-before the read is not mo-after the write read
                if hb.has(w2, r) && pos[w2] > pos[w1] {
                    return false;
                }
                // CoRW: a write that happens-after the read is mo-after the write read
                if hb.has(r, w2) && pos[w2] < pos[w1] {
                    return false;
                }
            }
            if self.evs[r].kind == EK::U {
                // the update is mo-after what it read ...
                if pos[r] == usize::MAX || pos[r] <= pos[w1] {
                    return false;
                }
                // ... immediately (atomicity)
                if pos[r] != pos[w1] + 1 && !dev.at_ignores_plain_stores {
                    return false;
                }
                if dev.at_ignores_plain_stores {
                    // deviation: the only atomicity guarantee left is that no two RMWs read
                    // from the same store
                    for &r2 in &readers {
                        if r2 != r && self.evs[r2].kind == EK::U && self.rf[r2] == Some(w1) {
                            return false;
                        }
                    }
                }
            }
        }
        // CoRR
        for &r1 in &readers {
            for &r2 in &readers {
                if r1 != r2 && hb.has(r1, r2) {
                    let w1 = self.rf[r1].unwrap();
                    let w2 = self.rf[r2].unwrap();
                    if pos[w1] > pos[w2] {
                        return false;
                    }
                }
            }
        }
        true
    }

    /// All atomic write events of a location
    pub fn writes_of(&self, loc: u16) -> Vec<usize> {
        (0..self.n())
            .filter(|&e| self.is_write(e) && self.evs[e].loc == loc)
            .collect()
    }

    /// eco = (rf ∪ mo ∪ rb)+ for the given total mo of every location
    pub fn eco(&self, mos: &[Vec<usize>]) -> Rel {
        let n = self.n();
        let mut e = Rel::new(n);
        let mut mo_rel = Rel::new(n);
        for m in mos {
            for i in 0..m.len() {
                for j in i + 1..m.len() {
                    mo_rel.add(m[i], m[j]);
                }
            }
        }
        for r in 0..n {
            if let Some(w) = self.rf[r] {
                if self.is_read(r) {
                    e.add(w, r);
                    // rb: r -> every write mo-after w (except r itself)
                    let mut after = mo_rel.r[w];
                    after &= !(1u128 << r);
                    e.r[r] |= after;
                }
            }
        }
        e.union_with(&mo_rel);
        e.close();
        e
    }

    fn mask(&self, f: impl Fn(&Ev) -> bool) -> Bits {
        let mut m = 0;
        for (i, e) in self.evs.iter().enumerate() {
            if f(e) {
                m |= 1u128 << i;
            }
        }
        m
    }

    /// The SC axiom: acyclic(psc). `May` only orders SeqCst fences (psc_F); `Must` is full RC11.
    pub fn sc_ok(&self, reading: Reading, sb: &Rel, hb: &Rel, mos: &[Vec<usize>]) -> bool {
        let n = self.n();
        let fsc = self.mask(|e| e.kind == EK::F && e.ord.is_sc());
        let esc_acc = self.mask(|e| e.kind != EK::F && e.kind != EK::Sync && !e.na && e.ord.is_sc());
        if reading == Reading::May {
            if fsc.count_ones() < 2 {
                return true;
            }
        } else if (fsc | esc_acc).count_ones() < 2 {
            return true;
        }
        let eco = self.eco(mos);
        // psc_F = [Fsc]; (hb ∪ hb;eco;hb); [Fsc]
        let hb_eco_hb = hb.compose(&eco).compose(hb);
        let mut inner = hb.clone();
        inner.union_with(&hb_eco_hb);
        let mut psc = inner.restrict_dom(fsc).restrict_rng(fsc);
        if reading == Reading::Must {
            // scb = sb ∪ sb|≠loc;hb;sb|≠loc ∪ hb|loc ∪ mo ∪ rb
            let mut sb_neq = Rel::new(n);
            let mut hb_loc = Rel::new(n);
            for a in 0..n {
                for b in 0..n {
                    let (la, lb) = (self.evs[a].loc, self.evs[b].loc);
                    let same = la != NOLOC && la == lb;
                    if sb.has(a, b) && !same {
                        sb_neq.add(a, b);
                    }
                    if hb.has(a, b) && same {
                        hb_loc.add(a, b);
                    }
                }
            }
            let mut scb = sb.clone();
            scb.union_with(&sb_neq.compose(hb).compose(&sb_neq));
            scb.union_with(&hb_loc);
            // mo ∪ rb
            let mut mo_rel = Rel::new(n);
            for m in mos {
                for i in 0..m.len() {
                    for j in i + 1..m.len() {
                        mo_rel.add(m[i], m[j]);
                    }
                }
            }
            let mut rb = Rel::new(n);
            for r in 0..n {
                if let Some(w) = self.rf[r] {
                    if self.is_read(r) {
                        rb.r[r] |= mo_rel.r[w] & !(1u128 << r);
                    }
                }
            }
            scb.union_with(&mo_rel);
            scb.union_with(&rb);
            let esc = esc_acc | fsc;
            // left = [Esc] ∪ [Fsc];hb?   right = [Esc] ∪ hb?;[Fsc]
            let hbq = hb.opt();
            let mut left = Rel::new(n);
            let mut right = Rel::new(n);
            for i in 0..n {
                if esc >> i & 1 == 1 {
                    left.add(i, i);
                    right.add(i, i);
                }
                if fsc >> i & 1 == 1 {
                    left.r[i] |= hbq.r[i];
                }
                right.r[i] |= hbq.r[i] & fsc;
            }
            let base = left.compose(&scb).compose(&right);
            psc.union_with(&base);
        }
        psc.acyclic()
    }

    /// Full consistency of a graph whose `mo` is total and known (Must walks).
    pub fn consistent_total(&self, reading: Reading, dev: Deviation) -> bool {
        let sb = self.sb();
        let hb = self.hb_with_sb(reading, &sb);
        if !hb.irreflexive() {
            return false;
        }
        for (loc, m) in self.mo.iter().enumerate() {
            if m.is_empty() {
                continue;
            }
            if !self.coherent_loc(loc as u16, m, &hb, dev) {
                return false;
            }
        }
        self.sc_ok(reading, &sb, &hb, &self.mo)
    }

    /// ∃ mo: is there a total modification order per location making the graph consistent?
    /// (rf is given). Returns a witness.
    pub fn exists_mo(&self, reading: Reading, dev: Deviation) -> Option<Vec<Vec<usize>>> {
        let sb = self.sb();
        let hb = self.hb_with_sb(reading, &sb);
        if !hb.irreflexive() {
            return None;
        }
        let nloc = self.mo.len();
        let mut per_loc: Vec<Vec<Vec<usize>>> = Vec::with_capacity(nloc);
        for loc in 0..nloc {
            let ws = self.writes_of(loc as u16);
            let cands = self.coherent_orders(loc as u16, &ws, &hb, dev);
            if cands.is_empty() {
                return None;
            }
            per_loc.push(cands);
        }
        // need the cross-location axiom?
        let fsc = self.mask(|e| e.kind == EK::F && e.ord.is_sc());
        let esc_acc = self.mask(|e| e.kind != EK::F && e.kind != EK::Sync && !e.na && e.ord.is_sc());
        let need_sc = match reading {
            Reading::May => fsc.count_ones() >= 2,
            Reading::Must => (fsc | esc_acc).count_ones() >= 2,
        };
        if !need_sc {
            return Some(per_loc.into_iter().map(|mut c| c.swap_remove(0)).collect());
        }
        // product search
        let mut idx = vec![0usize; nloc];
        loop {
            let mos: Vec<Vec<usize>> = (0..nloc).map(|l| per_loc[l][idx[l]].clone()).collect();
            if self.sc_ok(reading, &sb, &hb, &mos) {
                return Some(mos);
            }
            // next
            let mut l = 0;
            loop {
                if l == nloc {
                    return None;
                }
                idx[l] += 1;
                if idx[l] < per_loc[l].len() {
                    break;
                }
                idx[l] = 0;
                l += 1;
            }
        }
    }

    /// All total orders of `ws` that are coherent for `loc` (backtracking with forced precedence).
    pub fn coherent_orders(&self, loc: u16, ws: &[usize], hb: &Rel, dev: Deviation) -> Vec<Vec<usize>> {
        let k = ws.len();
        if k == 0 {
            return vec![vec![]];
        }
        // forced precedence among writes, as bitmask over indices of ws
        let mut before = vec![0u32; k]; // before[i] = set of j that must precede i
        let idx_of = |e: usize| ws.iter().position(|&w| w == e);
        for i in 0..k {
            for j in 0..k {
                if i != j && hb.has(ws[j], ws[i]) {
                    before[i] |= 1 << j;
                }
            }
        }
        let n = self.n();
        let readers: Vec<usize> = (0..n)
            .filter(|&e| self.is_read(e) && self.evs[e].loc == loc && self.rf[e].is_some())
            .collect();
        for &r in &readers {
            let w1 = self.rf[r].unwrap();
            let i1 = match idx_of(w1) {
                Some(i) => i,
                None => return vec![],
            };
            for j in 0..k {
                let w2 = ws[j];
                if w2 == w1 || w2 == r {
                    continue;
                }
                if hb.has(w2, r) {
                    before[i1] |= 1 << j; // w2 < w1
                }
                if hb.has(r, w2) {
                    before[j] |= 1 << i1; // w1 < w2
                }
            }
            if self.evs[r].kind == EK::U {
                if let Some(ir) = idx_of(r) {
                    before[ir] |= 1 << i1;
                }
            }
        }
        for &r1 in &readers {
            for &r2 in &readers {
                if r1 != r2 && hb.has(r1, r2) {
                    let (w1, w2) = (self.rf[r1].unwrap(), self.rf[r2].unwrap());
                    if w1 != w2 {
                        if let (Some(i1), Some(i2)) = (idx_of(w1), idx_of(w2)) {
                            before[i2] |= 1 << i1;
                        }
                    }
                }
            }
        }
        let mut out = Vec::new();
        let mut cur: Vec<usize> = Vec::with_capacity(k);
        self.perm_rec(loc, ws, &before, 0u32, &mut cur, hb, dev, &mut out);
        out
    }

    #[allow(clippy::too_many_arguments)]
    fn perm_rec(
        &self,
        loc: u16,
        ws: &[usize],
        before: &[u32],
        placed: u32,
        cur: &mut Vec<usize>,
        hb: &Rel,
        dev: Deviation,
        out: &mut Vec<Vec<usize>>,
    ) {
        let k = ws.len();
        if cur.len() == k {
            if self.coherent_loc(loc, cur, hb, dev) {
                out.push(cur.clone());
            }
            return;
        }
        if out.len() >= 64 {
            return; // enough witnesses for the product search
        }
        for i in 0..k {
            if placed >> i & 1 == 1 {
                continue;
            }
            if before[i] & !placed != 0 {
                continue;
            }
            cur.push(ws[i]);
            self.perm_rec(loc, ws, before, placed | 1 << i, cur, hb, dev, out);
            cur.pop();
        }
    }

    /// Data races: pairs of conflicting accesses to one location, at least one non-atomic, not
    /// ordered by hb. Returns the first pair found.
    pub fn find_race(&self, hb: &Rel) -> Option<(usize, usize)> {
        let n = self.n();
        for a in 0..n {
            let ea = &self.evs[a];
            if ea.loc == NOLOC || ea.kind == EK::F {
                continue;
            }
            for b in a + 1..n {
                let eb = &self.evs[b];
                if eb.loc != ea.loc || eb.kind == EK::F {
                    continue;
                }
                if !ea.na && !eb.na {
                    continue;
                }
                if ea.tid == INIT_TID || eb.tid == INIT_TID {
                    continue;
                }
                let wa = if ea.na { ea.na_write } else { matches!(ea.kind, EK::W | EK::U) };
                let wb = if eb.na { eb.na_write } else { matches!(eb.kind, EK::W | EK::U) };
                if !wa && !wb {
                    continue;
                }
                if !hb.has(a, b) && !hb.has(b, a) {
                    return Some((a, b));
                }
            }
        }
        None
    }
}
