//! Interpreter of the DSL on the REAL loom API, inside `loom::model::Builder::check`.
//!
//! Every op logs an invoke event before it calls into loom and a return event (with the result)
//! after loom returned. loom is serial and a context switch can only happen at an operation's
//! branch point, which precedes its effect, so the order of return events is the order in which
//! the effects took place (compound operations excepted, see DESIGN.md section 3).

use crate::dsl::*;
use loom::verif::Branch;
use std::cell::RefCell;
use std::rc::Rc;
use std::sync::Arc as StdArc;

#[derive(Clone, Copy, Debug, PartialEq, Eq, Hash, serde::Serialize, serde::Deserialize)]
pub enum HK {
    Inv,
    Ret,
    /// a failed iteration of an `Await` spin loop: `res` is the value that was loaded
    Spin,
    /// the op was unwound by a panic (first such event of an iteration = origin of the panic)
    Unwind,
    /// harness note (TLS / lazy_static life cycle): pc = key, res = code
    Note,
}

#[derive(Clone, Debug, PartialEq, Eq, Hash, serde::Serialize, serde::Deserialize)]
pub struct HEv {
    pub tid: u8,
    pub pc: u16,
    pub kind: HK,
    pub res: Option<u64>,
}

pub type History = Vec<HEv>;

pub fn history_text(h: &[HEv]) -> String {
    let mut s = String::new();
    for e in h {
        let k = match e.kind {
            HK::Inv => "i",
            HK::Ret => "r",
            HK::Spin => "s",
            HK::Unwind => "u",
            HK::Note => "n",
        };
        s.push_str(&format!("{}{}.{}", k, e.tid, e.pc));
        if let Some(v) = e.res {
            s.push_str(&format!("={}", crate::machine::fmt_val(v)));
        }
        s.push(' ');
    }
    s
}

thread_local! {
    static REC: RefCell<History> = RefCell::new(Vec::new());
    /// observed loom ThreadIds (public_id) per DSL thread in the current iteration
    static TIDS: RefCell<Vec<(u8, String)>> = RefCell::new(Vec::new());
}

/// Injected panic: fires immediately before op (tid, pc) the `hit`-th time that op is reached
/// during the current model run.
#[derive(Clone, Copy, Debug, PartialEq, Eq, serde::Serialize, serde::Deserialize)]
pub struct PanicFault {
    pub tid: u8,
    pub pc: u16,
    pub hit: u32,
    pub marker: u32,
}

thread_local! {
    static FAULT: std::cell::Cell<Option<PanicFault>> = std::cell::Cell::new(None);
    static FAULT_HITS: std::cell::Cell<u32> = std::cell::Cell::new(0);
    static FAULT_FIRED: std::cell::Cell<bool> = std::cell::Cell::new(false);
}

pub fn set_panic_fault(f: Option<PanicFault>) {
    FAULT.with(|c| c.set(f));
    FAULT_HITS.with(|c| c.set(0));
    FAULT_FIRED.with(|c| c.set(false));
}
pub fn panic_fault_fired() -> bool {
    FAULT_FIRED.with(|c| c.get())
}

/// FAULT: an injected panic. Every other one (odd marker) is raised INSIDE the closure passed to
/// `UnsafeCell::with`, with a guard created before it that writes the same cell while the panic
/// unwinds (a reset-on-exit guard): the cell's bookkeeping has to survive the unwinding of its own
/// access. The cell is private to the operation, so no race is involved and the expected result of
/// the model run is the same as for a plain panic.
fn raise_injected_panic(marker: u32) -> ! {
    if marker % 2 == 1 {
        struct Reset<'a>(&'a loom::cell::UnsafeCell<u64>);
        impl Drop for Reset<'_> {
            fn drop(&mut self) {
                self.0.with_mut(|_| ());
            }
        }
        let cell = loom::cell::UnsafeCell::new(0u64);
        let _g = Reset(&cell);
        PANIC_IN_CELL_FIRED.with(|c| c.set(c.get() + 1));
        cell.with(|_| panic!("VERIF-PANIC-{}", marker));
    }
    panic!("VERIF-PANIC-{}", marker);
}
thread_local! {
    /// probe: panics raised inside an `UnsafeCell::with` closure
    pub static PANIC_IN_CELL_FIRED: std::cell::Cell<u64> = std::cell::Cell::new(0);
}

fn maybe_inject(tid: u8, pc: usize) {
    if let Some(f) = FAULT.with(|c| c.get()) {
        if f.tid == tid && f.pc as usize == pc {
            let n = FAULT_HITS.with(|c| {
                c.set(c.get() + 1);
                c.get()
            });
            if n == f.hit {
                FAULT_FIRED.with(|c| c.set(true));
                raise_injected_panic(f.marker);
            }
        }
    }
}

// ---- turnstile for several OS threads running models "concurrently" (C16): exactly one OS
// thread holds the token; at a gate the holder draws the next holder from the shared PRNG.
pub struct Turnstile {
    pub state: std::sync::Mutex<TurnState>,
    pub cv: std::sync::Condvar,
}
pub struct TurnState {
    pub turn: usize,
    pub alive: Vec<bool>,
    pub rng: crate::rng::Rng,
    pub handoffs: u64,
    /// a thread that is being starved (stall fault) until `stall_left` gate passes have happened
    pub stalled: Option<usize>,
    pub stall_left: u64,
}
thread_local! {
    static GATE: RefCell<Option<(std::sync::Arc<Turnstile>, usize)>> = RefCell::new(None);
}
pub fn set_gate(g: Option<(std::sync::Arc<Turnstile>, usize)>) {
    GATE.with(|c| *c.borrow_mut() = g);
}
impl Turnstile {
    pub fn new(n: usize, rng: crate::rng::Rng) -> Turnstile {
        Turnstile {
            state: std::sync::Mutex::new(TurnState { turn: 0, alive: vec![true; n], rng, handoffs: 0, stalled: None, stall_left: 0 }),
            cv: std::sync::Condvar::new(),
        }
    }
    /// wait until it is `me`'s turn
    pub fn wait_turn(&self, me: usize) {
        let mut st = self.state.lock().unwrap();
        while st.turn != me {
            st = self.cv.wait(st).unwrap();
        }
    }
    /// called by the token holder: maybe pass the token on, then wait to get it back
    pub fn gate(&self, me: usize) {
        let mut st = self.state.lock().unwrap();
        debug_assert_eq!(st.turn, me);
        if st.stall_left > 0 {
            st.stall_left -= 1;
            if st.stall_left == 0 {
                st.stalled = None;
            }
        }
        let cands: Vec<usize> = (0..st.alive.len()).filter(|&i| st.alive[i] && Some(i) != st.stalled).collect();
        if cands.is_empty() {
            return;
        }
        let k = st.rng.below(cands.len());
        let next = cands[k];
        if next != me {
            st.turn = next;
            st.handoffs += 1;
            self.cv.notify_all();
            while st.turn != me {
                st = self.cv.wait(st).unwrap();
            }
        }
    }
    /// the holder is done: hand the token to someone alive
    pub fn finish(&self, me: usize) {
        let mut st = self.state.lock().unwrap();
        st.alive[me] = false;
        if st.stalled == Some(me) {
            st.stalled = None;
        }
        st.stalled = None;
        let cands: Vec<usize> = (0..st.alive.len()).filter(|&i| st.alive[i]).collect();
        if !cands.is_empty() {
            let k = st.rng.below(cands.len());
            st.turn = cands[k];
            st.handoffs += 1;
        }
        self.cv.notify_all();
    }
}
fn gate_point() {
    let g = GATE.with(|c| c.borrow().clone());
    if let Some((ts, me)) = g {
        ts.gate(me);
    }
}

fn rec(tid: u8, pc: usize, kind: HK, res: Option<u64>) {
    REC.with(|r| r.borrow_mut().push(HEv { tid, pc: pc as u16, kind, res }));
}

pub fn take_history() -> History {
    REC.with(|r| std::mem::take(&mut *r.borrow_mut()))
}
pub fn take_tids() -> Vec<(u8, String)> {
    TIDS.with(|r| std::mem::take(&mut *r.borrow_mut()))
}

struct OpGuard {
    tid: u8,
    pc: usize,
}
impl Drop for OpGuard {
    fn drop(&mut self) {
        if std::thread::panicking() {
            rec(self.tid, self.pc, HK::Unwind, None);
            UNWINDING.with(|u| u.borrow_mut()[self.tid as usize] = true);
        }
    }
}

thread_local! {
    /// DSL threads that are unwinding an uncaught panic (set by `OpGuard`)
    static UNWINDING: RefCell<[bool; 8]> = RefCell::new([false; 8]);
    /// When set, a DSL thread that unwinds drops what it owns (Arc handles, receivers, guards,
    /// tracked values) like a real program does, i.e. it performs loom operations while it
    /// unwinds. Only sound for DETERMINISTIC panics (a panic that is a function of the
    /// execution: loom's own failures, "panic whenever this op is reached", "panic if this op
    /// returned v"); a panic at the k-th reach across iterations may strike in the replayed
    /// prefix of an iteration, where the operations of destructors would not match the
    /// recorded decisions.
    static REAL_DROPS: std::cell::Cell<bool> = std::cell::Cell::new(false);
}

pub fn set_real_drops(on: bool) {
    REAL_DROPS.with(|c| c.set(on));
}

thread_local! {
    /// Should an unwinding thread also JOIN the threads it started (a destructor that blocks)?
    /// Not when a second, independent failure can strike in another thread meanwhile: the model
    /// then fails from that thread and the blocked, half-unwound one is abandoned (domain of known
    /// finding K7).
    static JOIN_ON_UNWIND: std::cell::Cell<bool> = std::cell::Cell::new(true);
}
pub fn set_join_on_unwind(on: bool) {
    JOIN_ON_UNWIND.with(|c| c.set(on));
}

/// A channel message. `report_to`: if the message is dropped without having been received, its
/// destructor sends `v + 1` on that channel.
pub struct Msg {
    v: u64,
    report_to: Option<loom::sync::mpsc::Sender<Msg>>,
}
impl Msg {
    fn received(mut self) -> u64 {
        self.report_to = None;
        self.v
    }
}
impl Drop for Msg {
    fn drop(&mut self) {
        if let Some(tx) = self.report_to.take() {
            let _ = tx.send(Msg { v: self.v + 1, report_to: None });
        }
    }
}

pub struct Payload {
    pub arc_idx: u8,
    /// stands for the payload's memory: holders read it, the destructor writes it
    pub cell: loom::cell::UnsafeCell<u64>,
}
impl Drop for Payload {
    fn drop(&mut self) {
        PAYLOAD_DROPS.with(|d| d.borrow_mut().push(self.arc_idx));
        if !std::thread::panicking() {
            self.cell.with_mut(|_| ());
        }
    }
}
thread_local! {
    static PAYLOAD_DROPS: RefCell<Vec<u8>> = RefCell::new(Vec::new());
}

type LArc = loom::sync::Arc<Payload>;

// ---- thread_local! / lazy_static! objects of the harness (C17)
pub const NOTE_TLS_INIT: u64 = 1;
pub const NOTE_TLS_DROP: u64 = 2;
pub const NOTE_TLS_DROP_SAW_OTHER_ALIVE: u64 = 3;
pub const NOTE_LAZY_INIT: u64 = 4;
pub const NOTE_LAZY_DROP: u64 = 5;
pub const NOTE_LAZY_SEEN: u64 = 6;

thread_local! {
    /// DSL thread currently executing an op (set immediately before a TLS / lazy access)
    static CUR_TID: std::cell::Cell<u8> = std::cell::Cell::new(0);
    /// which TLS keys the DSL threads have initialised in this iteration: [tid][key]
    static TLS_INITED: RefCell<Vec<[bool; 2]>> = RefCell::new(vec![[false; 2]; MAX_THREADS]);
    /// stamp source for lazy instances
    static LAZY_STAMP: std::cell::Cell<u64> = std::cell::Cell::new(0);
    /// should lazy initialisers contain a scheduling point?
    static LAZY_INIT_YIELDS: std::cell::Cell<bool> = std::cell::Cell::new(false);
}

thread_local! {
    /// should thread-local / lazy-static values own a loom object (an `Arc`)? Its destructor is a
    /// loom operation, also when the value is dropped because the model is failing (C06)
    static STATICS_OWN_ARC: std::cell::Cell<bool> = std::cell::Cell::new(false);
}
pub fn set_statics_own_arc(b: bool) {
    STATICS_OWN_ARC.with(|c| c.set(b));
}
fn owned_arc() -> Option<loom::sync::Arc<u64>> {
    if STATICS_OWN_ARC.with(|c| c.get()) {
        Some(loom::sync::Arc::new(7))
    } else {
        None
    }
}

pub struct TlsVal {
    key: u8,
    owner: u8,
    cell: loom::cell::UnsafeCell<u64>,
    _arc: Option<loom::sync::Arc<u64>>,
}
impl TlsVal {
    fn new(key: u8) -> TlsVal {
        let owner = CUR_TID.with(|c| c.get());
        rec(owner, key as usize, HK::Note, Some(NOTE_TLS_INIT));
        TLS_INITED.with(|t| t.borrow_mut()[owner as usize][key as usize] = true);
        TlsVal { key, owner, cell: loom::cell::UnsafeCell::new(0), _arc: owned_arc() }
    }
}
impl Drop for TlsVal {
    fn drop(&mut self) {
        if std::thread::panicking() {
            return;
        }
        rec(self.owner, self.key as usize, HK::Note, Some(NOTE_TLS_DROP));
        // the thread is finishing: every thread-local it initialised reports AccessError now
        let other = 1 - self.key;
        let other_inited = TLS_INITED.with(|t| t.borrow()[self.owner as usize][other as usize]);
        if other_inited {
            let alive = if other == 0 { KEY0.try_with(|_| ()).is_ok() } else { KEY1.try_with(|_| ()).is_ok() };
            if alive {
                rec(self.owner, self.key as usize, HK::Note, Some(NOTE_TLS_DROP_SAW_OTHER_ALIVE));
            }
        }
        self.cell.with_mut(|_| ());
    }
}
loom::thread_local! {
    static KEY0: TlsVal = TlsVal::new(0);
    static KEY1: TlsVal = TlsVal::new(1);
}

pub struct LazyVal {
    key: u8,
    stamp: u64,
    cell: loom::cell::UnsafeCell<u64>,
    _arc: Option<loom::sync::Arc<u64>>,
}
impl LazyVal {
    fn new(key: u8) -> LazyVal {
        let t = CUR_TID.with(|c| c.get());
        let stamp = LAZY_STAMP.with(|c| {
            c.set(c.get() + 1);
            c.get()
        });
        rec(t, key as usize, HK::Note, Some(NOTE_LAZY_INIT + stamp * 16));
        let v = LazyVal { key, stamp, cell: loom::cell::UnsafeCell::new(0), _arc: owned_arc() };
        v.cell.with_mut(|_| ());
        if LAZY_INIT_YIELDS.with(|c| c.get()) {
            // a scheduling point inside the initialiser: another thread may initialise meanwhile
            loom::thread::yield_now();
        }
        v
    }
}
impl Drop for LazyVal {
    fn drop(&mut self) {
        if std::thread::panicking() {
            return;
        }
        rec(255, self.key as usize, HK::Note, Some(NOTE_LAZY_DROP + self.stamp * 16));
    }
}
loom::lazy_static! {
    static ref LAZY0: LazyVal = LazyVal::new(0);
    static ref LAZY1: LazyVal = LazyVal::new(1);
}
pub fn set_lazy_init_yields(b: bool) {
    LAZY_INIT_YIELDS.with(|c| c.set(b));
}

struct Env {
    p: StdArc<Program>,
    atomics: Vec<loom::sync::atomic::AtomicU64>,
    mutexes: Vec<loom::sync::Mutex<()>>,
    rwlocks: Vec<loom::sync::RwLock<()>>,
    condvars: Vec<loom::sync::Condvar>,
    notifies: Vec<loom::sync::Notify>,
    senders: Vec<loom::sync::mpsc::Sender<Msg>>,
    receivers: RefCell<Vec<Option<loom::sync::mpsc::Receiver<Msg>>>>,
    cells: Vec<loom::cell::UnsafeCell<u64>>,
    join: RefCell<Vec<Option<loom::thread::JoinHandle<()>>>>,
    threads: RefCell<Vec<Option<loom::thread::Thread>>>,
    /// initial Arc handles waiting for their owner thread: [arc][thread]
    arc_init: RefCell<Vec<Vec<Option<LArc>>>>,
    aw: loom::future::AtomicWaker,
    waker_slots: RefCell<Vec<Option<std::task::Waker>>>,
    /// handles returned by threads at their end: [arc]
    arc_returned: RefCell<Vec<Vec<LArc>>>,
}

struct Ctx {
    // guards first: they must be dropped before `env`
    mguards: Vec<Option<loom::sync::MutexGuard<'static, ()>>>,
    rguards: Vec<Vec<loom::sync::RwLockReadGuard<'static, ()>>>,
    wguards: Vec<Option<loom::sync::RwLockWriteGuard<'static, ()>>>,
    rx: Vec<Option<loom::sync::mpsc::Receiver<Msg>>>,
    arcs: Vec<Vec<LArc>>,
    /// Track values / raw blocks are owned by the thread that created them (objects only move
    /// between threads through loom-visible synchronisation)
    tracks: Vec<Option<loom::alloc::Track<u8>>>,
    blocks: Vec<Option<*mut u8>>,
    results: Vec<Option<u64>>,
    tid: u8,
    env: Rc<Env>,
}

thread_local! {
    /// unwinding threads that dropped their loom objects for real (reach probe)
    pub static REAL_DROP_UNWINDS: std::cell::Cell<u64> = std::cell::Cell::new(0);
}

thread_local! {
    /// how many caught-panic faults were executed (reach probe)
    pub static CAUGHT_FIRED: std::cell::Cell<u64> = std::cell::Cell::new(0);
}

struct AssertSend<F>(F);
unsafe impl<F> Send for AssertSend<F> {}
impl<F: FnOnce()> AssertSend<F> {
    fn call(self) {
        (self.0)()
    }
}

fn thread_body(env: Rc<Env>, tid: u8, initial_arcs: Vec<(usize, LArc)>) {
    let p = env.p.clone();
    let nm = p.n_mutex as usize;
    let nl = p.n_rwlock as usize;
    let nc = p.n_chan as usize;
    let mut cx = Ctx {
        mguards: (0..nm).map(|_| None).collect(),
        rguards: (0..nl).map(|_| Vec::new()).collect(),
        wguards: (0..nl).map(|_| None).collect(),
        rx: (0..nc).map(|_| None).collect(),
        arcs: (0..p.arcs.len()).map(|_| Vec::new()).collect(),
        tracks: (0..p.n_track).map(|_| None).collect(),
        blocks: (0..p.n_block).map(|_| None).collect(),
        results: vec![None; p.threads[tid as usize].len()],
        tid,
        env: env.clone(),
    };
    // take what this thread owns
    for c in 0..nc {
        let mine = p.threads[tid as usize].iter().any(|op| {
            let o = op.inner();
            matches!(o, Op::Recv { c: x } | Op::TryRecv { c: x } | Op::DropRx { c: x } if *x as usize == c)
        });
        if mine {
            cx.rx[c] = env.receivers.borrow_mut()[c].take();
        }
    }
    // handles owned by the thread's closure (moved in at spawn)
    for (r, h) in initial_arcs {
        cx.arcs[r].push(h);
    }
    let id = format!("{:?}", loom::thread::current().id());
    TIDS.with(|t| t.borrow_mut().push((tid, id)));
    let n = p.threads[tid as usize].len();
    for pc in 0..n {
        let op = &p.threads[tid as usize][pc];
        rec(tid, pc, HK::Inv, None);
        if pc % 3 == 0 {
            gate_point();
        }
        maybe_inject(tid, pc);
        let g = OpGuard { tid, pc };
        let res = exec(&mut cx, op, pc);
        std::mem::forget(g);
        cx.results[pc] = res;
        rec(tid, pc, HK::Ret, res);
    }
    // leftover Arc handles / receivers are forgotten by `Ctx::drop` (dropping them would perform
    // loom operations the program did not ask for); loom must then report the leak.
}

impl Drop for Ctx {
    fn drop(&mut self) {
        if REAL_DROPS.with(|c| c.get()) && UNWINDING.with(|u| u.borrow()[self.tid as usize]) {
            // the thread panicked: everything it owns is dropped by the unwinding
            REAL_DROP_UNWINDS.with(|c| c.set(c.get() + 1));
            // ... and a destructor of its own reads and updates an atomic (a drop guard that
            // keeps a counter, say)
            if let Some(a) = self.env.atomics.first() {
                let _ = a.load(std::sync::atomic::Ordering::Relaxed);
                let _ = a.fetch_add(0, std::sync::atomic::Ordering::Relaxed);
            }
            // ... and another one clears the cells (a container dropping its contents), also when
            // the panic that unwinds is loom's report of a race on that very cell
            for c in self.env.cells.iter() {
                c.with_mut(|_| ());
            }
            // ... and a third one joins the threads this thread has started (a scope guard): a
            // destructor that may have to BLOCK while the panic unwinds. Only children that
            // terminate on their own (no blocking operation) are joined, so that the wait ends.
            // While this thread waits, mid-unwind, every other thread can run "while panicking"
            // (known finding K7: e.g. their guard drops poison mutexes). So the blocking destructor
            // is only used in programs in which no OTHER thread takes a lock or blocks at all.
            let p = self.env.p.clone();
            let nonblocking_thread = |t: usize| {
                p.threads[t].iter().all(|o| {
                    !matches!(
                        o.inner(),
                        Op::Lock { .. }
                            | Op::RLock { .. }
                            | Op::WLock { .. }
                            | Op::TryLock { .. }
                            | Op::TryRLock { .. }
                            | Op::TryWLock { .. }
                            | Op::UnwindLock { .. }
                            | Op::Recv { .. }
                            | Op::Join { .. }
                            | Op::Park
                            | Op::CvWait { .. }
                            | Op::CvWaitUntil { .. }
                            | Op::NWait { .. }
                            | Op::NWaitUntil { .. }
                            | Op::Await { .. }
                            | Op::AwaitY { .. }
                            | Op::BlockOn { .. }
                            | Op::BlockOn2 { .. }
                            | Op::SelfWake
                            | Op::Spawn { .. }
                            | Op::Panic { .. }
                    )
                })
            };
            let others_harmless = (0..p.threads.len()).all(|t| t == self.tid as usize || nonblocking_thread(t));
            for t in 1..p.threads.len() {
                let nonblocking = others_harmless;
                let mine = p.threads[self.tid as usize].iter().any(|o| matches!(o.inner(), Op::Spawn { t: x } if *x as usize == t));
                if nonblocking && mine && JOIN_ON_UNWIND.with(|c| c.get()) {
                    let h = self.env.join.borrow_mut()[t].take();
                    if let Some(h) = h {
                        let _ = h.join();
                    }
                }
            }
            return;
        }
        for hs in self.arcs.drain(..) {
            for h in hs {
                std::mem::forget(h);
            }
        }
        for rx in self.rx.drain(..).flatten() {
            std::mem::forget(rx);
        }
        for t in self.tracks.drain(..).flatten() {
            std::mem::forget(t);
        }
        // a lock still held when the thread ends stays held (the program did not unlock it)
        for g in self.mguards.drain(..).flatten() {
            std::mem::forget(g);
        }
        for g in self.wguards.drain(..).flatten() {
            std::mem::forget(g);
        }
        for gs in self.rguards.drain(..) {
            for g in gs {
                std::mem::forget(g);
            }
        }
    }
}

impl Drop for Env {
    fn drop(&mut self) {
        for rx in self.receivers.borrow_mut().drain(..).flatten() {
            std::mem::forget(rx);
        }
        for w in self.waker_slots.borrow_mut().drain(..).flatten() {
            // dropping a waker is a loom operation (Arc decrement): not at teardown
            std::mem::forget(w);
        }
        for hs in self.arc_returned.borrow_mut().drain(..) {
            for h in hs {
                std::mem::forget(h);
            }
        }
        for slots in self.arc_init.borrow_mut().drain(..) {
            for h in slots.into_iter().flatten() {
                std::mem::forget(h);
            }
        }
    }
}

fn exec(cx: &mut Ctx, op: &Op, pc: usize) -> Option<u64> {
    let env = cx.env.clone();
    let tid = cx.tid;
    match *op {
        Op::Load { a, o } => Some(env.atomics[a as usize].load(o.to_std())),
        Op::Store { a, v, o } => {
            env.atomics[a as usize].store(v, o.to_std());
            None
        }
        Op::Swap { a, v, o } => Some(env.atomics[a as usize].swap(v, o.to_std())),
        Op::FetchAdd { a, v, o } => Some(env.atomics[a as usize].fetch_add(v, o.to_std())),
        Op::Cas { a, e, n, so, fo } => {
            Some(match env.atomics[a as usize].compare_exchange(e, n, so.to_std(), fo.to_std()) {
                Ok(v) => v,
                Err(v) => v,
            })
        }
        Op::FetchUpdate { a, v, so, fo } => Some(
            env.atomics[a as usize]
                .fetch_update(so.to_std(), fo.to_std(), |x| Some(x.wrapping_add(v)))
                .unwrap(),
        ),
        Op::Fence { o } => {
            loom::sync::atomic::fence(o.to_std());
            None
        }
        Op::AWithMut { a, v } => {
            // exclusive access through a raw pointer, as code owning the atomic would have
            let ptr = &env.atomics[a as usize] as *const loom::sync::atomic::AtomicU64
                as *mut loom::sync::atomic::AtomicU64;
            unsafe { (*ptr).with_mut(|x| *x = v) };
            None
        }
        Op::AUnsyncLoad { a } => Some(unsafe { env.atomics[a as usize].unsync_load() }),
        Op::Await { a, o, v } => {
            let mut waited = 0;
            loop {
                let x = env.atomics[a as usize].load(o.to_std());
                if x == v {
                    break;
                }
                waited = 1;
                rec(tid, pc, HK::Spin, Some(x));
                if pc % 2 == 1 {
                    loom::hint::spin_loop();
                } else {
                    loom::thread::yield_now();
                }
            }
            Some(waited)
        }
        Op::AwaitY { a, o, v } => {
            loop {
                loom::thread::yield_now();
                let x = env.atomics[a as usize].load(o.to_std());
                if x == v {
                    break;
                }
                rec(tid, pc, HK::Spin, Some(x));
            }
            None
        }
        Op::Spawn { t } => {
            let e2 = env.clone();
            // the spawned closure owns the thread's initial loom::sync::Arc handles
            let mut handles: Vec<(usize, LArc)> = Vec::new();
            for r in 0..env.p.arcs.len() {
                if let Some(h) = env.arc_init.borrow_mut()[r][t as usize].take() {
                    handles.push((r, h));
                }
            }
            // (both ways of starting a thread)
            let h = if t % 2 == 0 {
                // (Builder::spawn demands Send; all modeled threads run on this OS thread)
                let body = AssertSend(move || thread_body(e2, t, handles));
                loom::thread::Builder::new().name(format!("dsl-{}", t)).spawn(move || body.call()).unwrap()
            } else {
                loom::thread::spawn(move || thread_body(e2, t, handles))
            };
            env.threads.borrow_mut()[t as usize] = Some(h.thread().clone());
            env.join.borrow_mut()[t as usize] = Some(h);
            None
        }
        Op::Join { t } => {
            let h = env.join.borrow_mut()[t as usize].take();
            if let Some(h) = h {
                h.join().unwrap();
            }
            None
        }
        Op::Yield => {
            loom::thread::yield_now();
            None
        }
        Op::Park => {
            loom::thread::park();
            None
        }
        Op::Unpark { t } => {
            let th = env.threads.borrow()[t as usize].clone();
            if let Some(th) = th {
                th.unpark();
            }
            None
        }
        Op::Lock { m } => {
            let g = env.mutexes[m as usize].lock().unwrap();
            cx.mguards[m as usize] = Some(unsafe { std::mem::transmute(g) });
            None
        }
        Op::TryLock { m } => match env.mutexes[m as usize].try_lock() {
            Ok(g) => {
                cx.mguards[m as usize] = Some(unsafe { std::mem::transmute(g) });
                Some(1)
            }
            Err(_) => Some(0),
        },
        Op::Unlock { m } => {
            cx.mguards[m as usize] = None;
            None
        }
        Op::UnwindLock { m } => {
            struct Sentinel<'a>(&'a loom::sync::Mutex<()>);
            impl Drop for Sentinel<'_> {
                fn drop(&mut self) {
                    // runs while the inner panic unwinds
                    if let Ok(g) = self.0.lock() {
                        drop(g);
                    }
                }
            }
            if cx.mguards[m as usize].is_none() {
                let mref = &env.mutexes[m as usize];
                let r = std::panic::catch_unwind(std::panic::AssertUnwindSafe(|| {
                    let _s = Sentinel(mref);
                    panic!("VERIF-INNER-PANIC");
                }));
                assert!(r.is_err());
            }
            None
        }
        Op::RLock { l } => {
            let g = env.rwlocks[l as usize].read().unwrap();
            cx.rguards[l as usize].push(unsafe { std::mem::transmute(g) });
            None
        }
        Op::TryRLock { l } => match env.rwlocks[l as usize].try_read() {
            Ok(g) => {
                cx.rguards[l as usize].push(unsafe { std::mem::transmute(g) });
                Some(1)
            }
            Err(_) => Some(0),
        },
        Op::WLock { l } => {
            let g = env.rwlocks[l as usize].write().unwrap();
            cx.wguards[l as usize] = Some(unsafe { std::mem::transmute(g) });
            None
        }
        Op::TryWLock { l } => match env.rwlocks[l as usize].try_write() {
            Ok(g) => {
                cx.wguards[l as usize] = Some(unsafe { std::mem::transmute(g) });
                Some(1)
            }
            Err(_) => Some(0),
        },
        Op::RUnlock { l } => {
            cx.rguards[l as usize].pop();
            None
        }
        Op::WUnlock { l } => {
            cx.wguards[l as usize] = None;
            None
        }
        Op::CvWait { c, m } => {
            if let Some(g) = cx.mguards[m as usize].take() {
                let g = if pc % 2 == 1 {
                    // (loom does not model the time-out: the same as `wait`, never timed out)
                    let (g, r) = env.condvars[c as usize].wait_timeout(g, std::time::Duration::from_millis(1)).unwrap();
                    assert!(!r.timed_out());
                    g
                } else {
                    env.condvars[c as usize].wait(g).unwrap()
                };
                cx.mguards[m as usize] = Some(g);
            }
            None
        }
        Op::CvWaitUntil { c, m, a, o, v } => {
            if let Some(mut g) = cx.mguards[m as usize].take() {
                loop {
                    let x = env.atomics[a as usize].load(o.to_std());
                    if x == v {
                        break;
                    }
                    rec(tid, pc, HK::Spin, Some(x));
                    g = env.condvars[c as usize].wait(g).unwrap();
                }
                cx.mguards[m as usize] = Some(g);
            }
            None
        }
        Op::NWaitUntil { n, a, o, v } => {
            loop {
                let x = env.atomics[a as usize].load(o.to_std());
                if x == v {
                    break;
                }
                rec(tid, pc, HK::Spin, Some(x));
                env.notifies[n as usize].wait();
            }
            None
        }
        Op::CvOne { c } => {
            env.condvars[c as usize].notify_one();
            None
        }
        Op::CvAll { c } => {
            env.condvars[c as usize].notify_all();
            None
        }
        Op::NWait { n } => {
            env.notifies[n as usize].wait();
            None
        }
        Op::NNotify { n } => {
            env.notifies[n as usize].notify();
            None
        }
        Op::Send { c, v } => {
            let _ = env.senders[c as usize].send(Msg { v, report_to: None });
            None
        }
        Op::SendBomb { c, v } => {
            let tx = env.senders[c as usize].clone();
            let _ = env.senders[c as usize].send(Msg { v, report_to: Some(tx) });
            None
        }
        Op::Recv { c } => match cx.rx[c as usize].as_ref() {
            Some(rx) => Some(rx.recv().map(Msg::received).unwrap_or(R_ERR)),
            None => None,
        },
        Op::TryRecv { c } => match cx.rx[c as usize].as_ref() {
            Some(rx) => Some(match rx.try_recv() {
                Ok(m) => m.received(),
                Err(std::sync::mpsc::TryRecvError::Empty) => R_EMPTY,
                Err(std::sync::mpsc::TryRecvError::Disconnected) => R_ERR,
            }),
            None => None,
        },
        Op::DropRx { c } => {
            cx.rx[c as usize] = None;
            None
        }
        Op::DropTx { .. } => None,
        // (both access APIs of UnsafeCell are exercised: closures and the ConstPtr / MutPtr guards;
        // which one is a fixed function of the op's position)
        Op::CRead { c } => {
            if (pc + c as usize) % 2 == 1 {
                let g = env.cells[c as usize].get();
                Some(unsafe { *g.deref() })
            } else {
                Some(env.cells[c as usize].with(|p| unsafe { *p }))
            }
        }
        Op::CWrite { c, v } => {
            if (pc + c as usize) % 2 == 1 {
                let g = env.cells[c as usize].get_mut();
                unsafe { *g.deref() = v };
            } else {
                env.cells[c as usize].with_mut(|p| unsafe { *p = v });
            }
            None
        }
        Op::ArcClone { r } => {
            if let Some(h) = cx.arcs[r as usize].last() {
                let h2 = h.clone();
                cx.arcs[r as usize].push(h2);
            }
            None
        }
        Op::ArcDrop { r } => match cx.arcs[r as usize].pop() {
            Some(h) => {
                let before = PAYLOAD_DROPS.with(|d| d.borrow().len());
                h.cell.with(|_| ());
                drop(h);
                // other threads may have dropped other payloads meanwhile: look for ours
                let mine = PAYLOAD_DROPS.with(|d| d.borrow()[before..].contains(&r));
                Some(mine as u64)
            }
            None => None,
        },
        Op::ArcDecStrong { r } => match cx.arcs[r as usize].pop() {
            Some(h) => {
                let before = PAYLOAD_DROPS.with(|d| d.borrow().len());
                let ptr = loom::sync::Arc::into_raw(h);
                unsafe { loom::sync::Arc::decrement_strong_count(ptr) };
                // other threads may have dropped other payloads meanwhile: look for ours
                let mine = PAYLOAD_DROPS.with(|d| d.borrow()[before..].contains(&r));
                Some(mine as u64)
            }
            None => None,
        },
        Op::ArcCount { r } => cx.arcs[r as usize].last().map(|h| loom::sync::Arc::strong_count(h) as u64),
        Op::ArcGetMut { r } => cx.arcs[r as usize]
            .last_mut()
            .map(|h| match loom::sync::Arc::get_mut(h) {
                Some(p) => {
                    p.cell.with_mut(|_| ());
                    1
                }
                None => 0,
            }),
        Op::ArcTryUnwrap { r } => match cx.arcs[r as usize].pop() {
            Some(h) => match loom::sync::Arc::try_unwrap(h) {
                Ok(payload) => {
                    drop(payload);
                    Some(1)
                }
                Err(h) => {
                    cx.arcs[r as usize].push(h);
                    Some(0)
                }
            },
            None => None,
        },
        Op::ArcForget { r } => {
            if let Some(h) = cx.arcs[r as usize].pop() {
                std::mem::forget(h);
            }
            None
        }
        Op::ArcRawRoundTrip { r } => {
            if let Some(h) = cx.arcs[r as usize].pop() {
                let ptr = loom::sync::Arc::into_raw(h);
                let h = unsafe { loom::sync::Arc::from_raw(ptr) };
                cx.arcs[r as usize].push(h);
            }
            None
        }
        Op::ArcIncStrong { r } => {
            if let Some(h) = cx.arcs[r as usize].pop() {
                let ptr = loom::sync::Arc::into_raw(h);
                unsafe { loom::sync::Arc::increment_strong_count(ptr) };
                let h1 = unsafe { loom::sync::Arc::from_raw(ptr) };
                let h2 = unsafe { loom::sync::Arc::from_raw(ptr) };
                cx.arcs[r as usize].push(h1);
                cx.arcs[r as usize].push(h2);
            }
            None
        }
        Op::ArcGive { .. } => unimplemented!(),
        Op::ArcReturn { r } => {
            let hs: Vec<LArc> = cx.arcs[r as usize].drain(..).collect();
            env.arc_returned.borrow_mut()[r as usize].extend(hs);
            None
        }
        Op::ArcCollect { r } => {
            let hs: Vec<LArc> = env.arc_returned.borrow_mut()[r as usize].drain(..).collect();
            cx.arcs[r as usize].extend(hs);
            None
        }
        Op::TrackNew { k } => {
            // no-op if the slot is occupied
            if cx.tracks[k as usize].is_none() {
                cx.tracks[k as usize] = Some(loom::alloc::Track::new(0u8));
            }
            None
        }
        Op::TrackDrop { k } => {
            let t = cx.tracks[k as usize].take();
            drop(t);
            None
        }
        Op::Alloc { k } => {
            if cx.blocks[k as usize].is_none() {
                let ptr = unsafe {
                    if pc % 2 == 1 {
                        loom::alloc::alloc_zeroed(loom::alloc::Layout::new::<u64>())
                    } else {
                        loom::alloc::alloc(loom::alloc::Layout::new::<u64>())
                    }
                };
                cx.blocks[k as usize] = Some(ptr);
            }
            None
        }
        Op::Dealloc { k } => {
            if let Some(ptr) = cx.blocks[k as usize].take() {
                unsafe { loom::alloc::dealloc(ptr, loom::alloc::Layout::new::<u64>()) };
            }
            None
        }
        Op::TlsWith { k } => {
            CUR_TID.with(|c| c.set(tid));
            let before = TLS_INITED.with(|t| t.borrow()[tid as usize][k as usize]);
            let owner = if k == 0 { KEY0.with(|v| { v.cell.with(|_| ()); v.owner }) } else { KEY1.with(|v| { v.cell.with(|_| ()); v.owner }) };
            assert!(owner == tid, "VERIF-TLS-PRIVACY: thread {} accessed the thread-local of thread {}", tid, owner);
            Some(!before as u64)
        }
        Op::TlsNested { k, j } => {
            CUR_TID.with(|c| c.set(tid));
            let bk = TLS_INITED.with(|t| t.borrow()[tid as usize][k as usize]);
            let bj = TLS_INITED.with(|t| t.borrow()[tid as usize][j as usize]);
            let inner = |v: &TlsVal| -> u8 {
                v.cell.with(|_| ());
                if j == 0 { KEY0.with(|w| { w.cell.with(|_| ()); w.owner }) } else { KEY1.with(|w| { w.cell.with(|_| ()); w.owner }) }
            };
            let owner = if k == 0 { KEY0.with(inner) } else { KEY1.with(inner) };
            assert!(owner == tid, "VERIF-TLS-PRIVACY: nested access reached the thread-local of thread {}", owner);
            let rk = !bk as u64;
            let rj = if k == j { 0 } else { !bj as u64 };
            Some(rk * 2 + rj)
        }
        Op::LazyGet { k } => {
            CUR_TID.with(|c| c.set(tid));
            let stamp = if k == 0 { let v: &LazyVal = &LAZY0; v.cell.with(|_| ()); v.stamp } else { let v: &LazyVal = &LAZY1; v.cell.with(|_| ()); v.stamp };
            rec(tid, k as usize, HK::Note, Some(NOTE_LAZY_SEEN + stamp * 16));
            None
        }
        Op::BlockOn { a, v, o, reg_first } => {
            let e2 = env.clone();
            loom::future::block_on(std::future::poll_fn(move |cx| {
                if reg_first {
                    e2.aw.register_by_ref(cx.waker());
                }
                let x = e2.atomics[a as usize].load(o.to_std());
                if x == v {
                    std::task::Poll::Ready(())
                } else {
                    rec(tid, pc, HK::Spin, Some(x));
                    if !reg_first {
                        e2.aw.register_by_ref(cx.waker());
                    }
                    std::task::Poll::Pending
                }
            }));
            None
        }
        Op::SelfWake => {
            struct SelfWakeOnce(bool);
            impl std::future::Future for SelfWakeOnce {
                type Output = ();
                fn poll(mut self: std::pin::Pin<&mut Self>, cx: &mut std::task::Context<'_>) -> std::task::Poll<()> {
                    if self.0 {
                        std::task::Poll::Ready(())
                    } else {
                        self.0 = true;
                        cx.waker().wake_by_ref();
                        std::task::Poll::Pending
                    }
                }
            }
            loom::future::block_on(SelfWakeOnce(false));
            None
        }
        Op::AwWake => {
            env.aw.wake();
            None
        }
        Op::BlockOn2 { a, va, b, vb, o } => {
            let e2 = env.clone();
            let mut first = true;
            loom::future::block_on(std::future::poll_fn(move |cx| {
                if first {
                    first = false;
                    let w0 = cx.waker().clone();
                    let w1 = cx.waker().clone();
                    let mut slots = e2.waker_slots.borrow_mut();
                    slots[0] = Some(w0);
                    slots[1] = Some(w1);
                }
                let x = e2.atomics[a as usize].load(o.to_std());
                rec(tid, pc, HK::Spin, Some(x));
                if x != va {
                    return std::task::Poll::Pending;
                }
                let y = e2.atomics[b as usize].load(o.to_std());
                rec(tid, pc, HK::Spin, Some(y));
                if y != vb {
                    return std::task::Poll::Pending;
                }
                std::task::Poll::Ready(())
            }));
            None
        }
        Op::SlotWake { i, by_ref } => {
            if by_ref {
                let w = env.waker_slots.borrow()[i as usize].clone();
                // (clone for borrow reasons only; wake_by_ref on the clone, then drop it)
                if let Some(w) = w {
                    w.wake_by_ref();
                }
            } else {
                let w = env.waker_slots.borrow_mut()[i as usize].take();
                if let Some(w) = w {
                    w.wake();
                }
            }
            None
        }
        Op::StopExploring => {
            loom::stop_exploring();
            None
        }
        Op::Explore => {
            loom::explore();
            None
        }
        Op::SkipBranch => {
            loom::skip_branch();
            None
        }
        Op::If { pc: cpc, eq, ref then } => {
            if cx.results[cpc as usize] == Some(eq) {
                exec(cx, then, pc)
            } else {
                None
            }
        }
        Op::Caught { ref op } => {
            // FAULT: a panic raised and caught inside the model; `op` runs in a destructor while
            // the panic unwinds
            struct OnUnwind<'a> {
                cx: &'a mut Ctx,
                op: &'a Op,
                pc: usize,
                res: &'a mut Option<u64>,
            }
            impl Drop for OnUnwind<'_> {
                fn drop(&mut self) {
                    assert!(std::thread::panicking());
                    *self.res = exec(self.cx, self.op, self.pc);
                }
            }
            let mut res = None;
            let r = std::panic::catch_unwind(std::panic::AssertUnwindSafe(|| {
                let _g = OnUnwind { cx, op, pc, res: &mut res };
                panic!("VERIF-INNER-PANIC");
            }));
            assert!(r.is_err());
            CAUGHT_FIRED.with(|c| c.set(c.get() + 1));
            res
        }
        Op::Panic { marker } => raise_injected_panic(marker),
        Op::Crash => {
            std::process::exit(77);
        }
    }
}

/// C07, last clause: `get_mut` / `into_inner` return the protected value (no scheduling point is
/// involved; checked once per iteration on locks of its own)
fn lock_value_probe() {
    let mut m = loom::sync::Mutex::new(41u64);
    if *m.get_mut().unwrap() != 41 {
        panic!("VERIF-PROBE-FAILED: Mutex::get_mut did not return the protected value");
    }
    *m.get_mut().unwrap() = 42;
    if m.into_inner().unwrap() != 42 {
        panic!("VERIF-PROBE-FAILED: Mutex::into_inner did not return the protected value");
    }
    let mut l = loom::sync::RwLock::new(43u64);
    if *l.get_mut().unwrap() != 43 {
        panic!("VERIF-PROBE-FAILED: RwLock::get_mut did not return the protected value");
    }
    *l.get_mut().unwrap() = 44;
    if l.into_inner().unwrap() != 44 {
        panic!("VERIF-PROBE-FAILED: RwLock::into_inner did not return the protected value");
    }
}

fn model_body(p: StdArc<Program>) {
    gate_point();
    if p.n_mutex > 0 || p.n_rwlock > 0 {
        lock_value_probe();
    }
    UNWINDING.with(|u| *u.borrow_mut() = [false; 8]);
    TLS_INITED.with(|t| *t.borrow_mut() = vec![[false; 2]; MAX_THREADS]);
    LAZY_STAMP.with(|c| c.set(0));
    let nt = p.n_threads();
    let mut senders = Vec::new();
    let mut receivers = Vec::new();
    for _ in 0..p.n_chan {
        let (tx, rx) = loom::sync::mpsc::channel::<Msg>();
        senders.push(tx);
        receivers.push(Some(rx));
    }
    let mut arc_init: Vec<Vec<Option<LArc>>> = Vec::new();
    for (r, owners) in p.arcs.iter().enumerate() {
        let first = loom::sync::Arc::new(Payload { arc_idx: r as u8, cell: loom::cell::UnsafeCell::new(0) });
        let mut slots: Vec<Option<LArc>> = (0..nt).map(|_| None).collect();
        for &o in owners {
            if o != 0 {
                slots[o as usize] = Some(first.clone());
            }
        }
        slots[0] = Some(first);
        arc_init.push(slots);
    }
    let env = Rc::new(Env {
        atomics: p.atomics.iter().map(|&v| loom::sync::atomic::AtomicU64::new(v)).collect(),
        mutexes: (0..p.n_mutex).map(|_| loom::sync::Mutex::new(())).collect(),
        rwlocks: (0..p.n_rwlock).map(|_| loom::sync::RwLock::new(())).collect(),
        condvars: (0..p.n_condvar).map(|_| loom::sync::Condvar::new()).collect(),
        notifies: (0..p.n_notify).map(|_| loom::sync::Notify::new()).collect(),
        senders,
        receivers: RefCell::new(receivers),
        cells: (0..p.n_cell).map(|_| loom::cell::UnsafeCell::new(0u64)).collect(),
        join: RefCell::new((0..nt).map(|_| None).collect()),
        threads: RefCell::new((0..nt).map(|_| None).collect()),
        aw: loom::future::AtomicWaker::new(),
        waker_slots: RefCell::new(vec![None, None]),
        arc_returned: RefCell::new((0..p.arcs.len()).map(|_| Vec::new()).collect()),
        arc_init: RefCell::new(arc_init),
        p: p.clone(),
    });
    env.threads.borrow_mut()[0] = Some(loom::thread::current());
    let mut mine: Vec<(usize, LArc)> = Vec::new();
    for r in 0..p.arcs.len() {
        if let Some(h) = env.arc_init.borrow_mut()[r][0].take() {
            mine.push((r, h));
        }
    }
    thread_body(env, 0, mine);
}

#[derive(Clone, Debug, PartialEq, Eq, Hash, serde::Serialize, serde::Deserialize)]
pub enum FailClass {
    Deadlock,
    Race,
    Leak(String),
    BranchLimit,
    ThreadLimit,
    UserPanic(u32),
    /// `lock()` of a lock poisoned by a guard dropped during a caught panic
    Poison,
    LoomInternal,
}

#[derive(Clone, Debug, serde::Serialize, serde::Deserialize)]
pub enum LoomStatus {
    Completed,
    /// stopped by the harness iteration cap (max_permutations)
    Capped,
    Failed { class: FailClass, msg: String },
}

pub fn classify_panic(msg: &str) -> FailClass {
    if let Some(rest) = msg.strip_prefix("VERIF-PANIC-") {
        return FailClass::UserPanic(rest.trim().parse().unwrap_or(0));
    }
    if msg.starts_with("deadlock;") {
        FailClass::Deadlock
    } else if msg.contains("Causality violation") {
        FailClass::Race
    } else if msg.starts_with("Arc leaked") {
        FailClass::Leak("Arc".into())
    } else if msg.starts_with("Allocation leaked") {
        FailClass::Leak("Allocation".into())
    } else if msg.starts_with("Messages leaked") {
        FailClass::Leak("Messages".into())
    } else if msg.starts_with("Model exceeded maximum number of branches") {
        FailClass::BranchLimit
    } else if msg.contains("assertion failed: self.threads.len() < self.max()")
        || msg.contains("assertion failed: threads.len() < self.max_threads")
    {
        FailClass::ThreadLimit
    } else if msg.contains("PoisonError") || (msg.contains("RwLock state corrupt") && msg.contains("Poisoned")) {
        FailClass::Poison
    } else {
        FailClass::LoomInternal
    }
}

pub fn panic_message(e: &Box<dyn std::any::Any + Send>) -> String {
    if let Some(s) = e.downcast_ref::<String>() {
        s.clone()
    } else if let Some(s) = e.downcast_ref::<&'static str>() {
        s.to_string()
    } else {
        "<non-string panic payload>".into()
    }
}

pub struct LoomRun {
    pub status: LoomStatus,
    /// iterations that ran to completion
    pub iterations: usize,
    /// history of the iteration that was running when the model failed
    pub failing_history: Option<History>,
}

pub fn install_quiet_panic_hook() {
    std::panic::set_hook(Box::new(|_| {}));
}

pub fn builder_from(cfg: &Config) -> loom::model::Builder {
    let mut b = loom::model::Builder::new();
    b.max_threads = cfg.max_threads;
    b.max_branches = cfg.max_branches;
    b.preemption_bound = cfg.preemption_bound;
    b.max_permutations = cfg.max_permutations;
    b.max_duration = cfg.max_duration_ms.map(std::time::Duration::from_millis);
    b.checkpoint_interval = cfg.checkpoint_interval;
    b.checkpoint_file = cfg.checkpoint_file.as_ref().map(|s| s.into());
    b.expect_explicit_explore = cfg.expect_explicit_explore;
    b.location = false;
    b.log = false;
    b
}

/// Run `p` under real loom. `on_iter` is called at the end of every completed iteration with its
/// history, the observed thread ids and the decision path (hook H1).
pub fn run_loom(
    p: &Program,
    cfg: &Config,
    mut on_iter: impl FnMut(&History, &[(u8, String)], &[Branch]) + 'static,
) -> LoomRun {
    let mut b = builder_from(cfg);
    // harness iteration cap, unless the run configures these limits itself
    let harness_cap = cfg.max_permutations.is_none() && cfg.checkpoint_file.is_none() && cfg.max_duration_ms.is_none();
    if harness_cap {
        b.checkpoint_interval = 1;
        b.max_permutations = Some(cfg.iter_cap + 1);
    }
    let count = Rc::new(std::cell::Cell::new(0usize));
    let c2 = count.clone();
    let _ = take_history();
    let _ = take_tids();
    PAYLOAD_DROPS.with(|d| d.borrow_mut().clear());
    loom::verif::set_iteration_hook(Some(Box::new(move |path: &[Branch]| {
        let h = take_history();
        let tids = take_tids();
        PAYLOAD_DROPS.with(|d| d.borrow_mut().clear());
        c2.set(c2.get() + 1);
        on_iter(&h, &tids, path);
    })));
    let prog = StdArc::new(p.clone());
    let res = std::panic::catch_unwind(std::panic::AssertUnwindSafe(|| {
        let prog = prog.clone();
        b.check(move || model_body(prog.clone()));
    }));
    loom::verif::set_iteration_hook(None);
    let iterations = count.get();
    match res {
        Ok(()) => {
            let capped = harness_cap && iterations >= cfg.iter_cap;
            let _ = take_history();
            LoomRun {
                status: if capped { LoomStatus::Capped } else { LoomStatus::Completed },
                iterations,
                failing_history: None,
            }
        }
        Err(e) => {
            let msg = panic_message(&e);
            let h = take_history();
            let _ = take_tids();
            LoomRun {
                status: LoomStatus::Failed { class: classify_panic(&msg), msg },
                iterations,
                failing_history: Some(h),
            }
        }
    }
}
