//! C06: a failure in any explored execution fails the model run, and only then.
//!
//! For a sampled program the injection points are ENUMERATED: a panic is injected immediately
//! before every op (thread, pc), in the first / a middle / the last iteration that reaches that
//! op (the iterations are known from a fault-free dry run, which is also the "no iteration
//! panics => returns normally after exploring everything" half of the property). For each
//! injection `catch_unwind(Builder::check)` must return the injected panic, raised in exactly
//! the planned iteration, with the iterations before it identical to the dry run; the process
//! must neither abort nor hang (seen by the supervisor); and a fixed probe model run afterwards
//! in the same process must behave exactly as it does in a fresh one.

use crate::cases::*;
use crate::dsl::*;
use crate::interp::*;
use serde_json::json;

use crate::trace::*;

/// The probe: a fixed small model whose complete behaviour (sequence of iteration histories) is
/// known; run after every faulty model run to see that the next run starts clean.
fn probe_program() -> Program {
    let mut p = Program { atomics: vec![0, 0], n_mutex: 1, arcs: vec![vec![1]], ..Default::default() };
    p.threads = vec![
        vec![
            Op::Spawn { t: 1 },
            Op::Store { a: 0, v: 16, o: MO::Rlx },
            Op::Lock { m: 0 },
            Op::Load { a: 1, o: MO::Rlx },
            Op::Unlock { m: 0 },
            Op::ArcDrop { r: 0 },
            Op::Join { t: 1 },
        ],
        vec![Op::Store { a: 1, v: 32, o: MO::Rlx }, Op::Lock { m: 0 }, Op::Load { a: 0, o: MO::Rlx }, Op::Unlock { m: 0 }, Op::ArcCount { r: 0 }, Op::ArcDrop { r: 0 }],
    ];
    p
}

fn probe_signature() -> (String, usize, u64) {
    let p = probe_program();
    let cfg = Config::default();
    let (run, tr) = trace_run(&p, &cfg);
    let mut h: u64 = 0;
    for x in &tr.iter_hashes {
        h = h.wrapping_mul(0x100000001b3) ^ x;
    }
    (format!("{:?}", run.status), run.iterations, h)
}

pub fn run_c06_case(p: &Program, cfg: &Config, max_iters_for_injection: usize) -> CaseReport {
    let mut rep = CaseReport { program: p.text(), program_hash: p.hash(), nontrivial: p.nontrivial(), ..Default::default() };
    let clean_probe = probe_signature();
    set_panic_fault(None);
    // thread-local / lazy-static values own a loom object: it is dropped by a loom operation,
    // also when the model is failing and the values are dropped with the execution
    set_statics_own_arc(true);
    let rep = run_c06_case_inner(p, cfg, max_iters_for_injection, rep, clean_probe);
    set_statics_own_arc(false);
    rep
}

fn run_c06_case_inner(p: &Program, cfg: &Config, max_iters_for_injection: usize, mut rep: CaseReport, clean_probe: (String, usize, u64)) -> CaseReport {
    let (dry, tr) = trace_run(p, cfg);
    rep.iterations = dry.iterations;
    rep.status = match &dry.status {
        LoomStatus::Completed => "completed".into(),
        LoomStatus::Capped => "capped".into(),
        LoomStatus::Failed { class, .. } => format!("failed:{:?}", class),
    };
    rep.too_large = matches!(dry.status, LoomStatus::Capped);
    let mut injected = 0u64;
    let mut fired = 0u64;
    let mut loom_failures = 0u64;
    let mut probes = 0u64;
    let mut check_probe = |rep: &mut CaseReport, context: String| {
        probes += 1;
        let sig = probe_signature();
        if sig != clean_probe {
            rep.violations.push(Violation {
                kind: "unclean_after_failure".into(),
                detail: format!("a probe model run after {} behaves differently from a fresh run: {:?} vs {:?}", context, sig, clean_probe),
                known: None,
                evidence: json!({"context": context}),
            });
        }
    };
    match &dry.status {
        LoomStatus::Failed { class, .. } => {
            // F-violation: loom itself raised (deadlock / race / leak): it unwound (we are here);
            // the next run must be clean
            loom_failures += 1;
            check_probe(&mut rep, format!("loom reported {:?}", class));
            // the same failure with the unwinding thread really dropping what it owns (loom's
            // own reports are functions of the execution): same verdict, no abort
            set_real_drops(true);
            set_join_on_unwind(false);
            let (again, _) = trace_run(p, cfg);
            set_join_on_unwind(true);
            set_real_drops(false);
            let same = matches!(&again.status, LoomStatus::Failed { class: c2, .. } if crate::cases::same_class(c2, class)) && again.iterations == dry.iterations;
            if !same {
                rep.violations.push(Violation {
                    kind: "panic_propagation".into(),
                    detail: format!("loom reported {:?} in iteration {}; with the unwinding thread dropping what it owns the run ended with {:?} after {} iterations", class, dry.iterations + 1, again.status, again.iterations),
                    known: None,
                    evidence: json!({}),
                });
            }
            check_probe(&mut rep, format!("loom reported {:?} and the unwinding thread dropped what it owns", class));
        }
        LoomStatus::Capped => {}
        LoomStatus::Completed => {
            if dry.iterations <= max_iters_for_injection {
                // determinism of the dry run is a precondition of the comparison below
                let (dry2, tr2) = trace_run(p, cfg);
                if dry2.iterations != dry.iterations || tr2.iter_hashes != tr.iter_hashes {
                    rep.violations.push(Violation {
                        kind: "nondeterministic".into(),
                        detail: format!("two fault-free runs differ: {} vs {} iterations", dry.iterations, dry2.iterations),
                        known: None,
                        evidence: json!({}),
                    });
                } else {
                    let mut marker = 1000u32;
                    for (&(tid, pc), iters) in &tr.reached {
                        let n = iters.len();
                        let mut hits: Vec<usize> = vec![1, (n + 1) / 2, n];
                        hits.sort();
                        hits.dedup();
                        for hit in hits {
                            marker += 1;
                            injected += 1;
                            let expected_iter = iters[hit - 1];
                            let fault = PanicFault { tid, pc, hit: hit as u32, marker };
                            set_panic_fault(Some(fault));
                            // "panic whenever this op is reached" is a deterministic program: the
                            // unwinding thread drops what it owns like a real program does
                            set_real_drops(hit == 1);
                            let (run, tri) = trace_run(p, cfg);
                            set_real_drops(false);
                            let did_fire = panic_fault_fired();
                            set_panic_fault(None);
                            if did_fire {
                                fired += 1;
                            }
                            let ctx = format!("a panic injected before {} (T{} pc{}) at its hit #{} (iteration {})", p.threads[tid as usize][pc as usize], tid, pc, hit, expected_iter);
                            let ok_status = matches!(&run.status, LoomStatus::Failed { class: FailClass::UserPanic(m), .. } if *m == marker);
                            let mut problem: Option<String> = None;
                            if !ok_status {
                                problem = Some(format!("expected the injected panic to reach the caller, got {:?}", run.status));
                            } else if run.iterations + 1 != expected_iter {
                                problem = Some(format!("the panic was raised in iteration {} instead of {}", run.iterations + 1, expected_iter));
                            } else if tri.iter_hashes[..] != tr.iter_hashes[..run.iterations] {
                                problem = Some("the iterations before the panic differ from the fault-free run".to_string());
                            }
                            if let Some(pb) = problem {
                                rep.violations.push(Violation {
                                    kind: "panic_propagation".into(),
                                    detail: format!("{}: {}", ctx, pb),
                                    known: None,
                                    evidence: json!({"fault": fault}),
                                });
                            }
                            check_probe(&mut rep, ctx);
                            if rep.violations.len() >= 3 {
                                break;
                            }
                        }
                        if rep.violations.len() >= 3 {
                            break;
                        }
                    }
                }
            }
        }
    }
    // F-assert: the panic of a failing user assertion - "if op c returned v, panic" - placed right
    // after op c. It first fires in the first iteration in which (t, c) returns v (known from the
    // dry run); being a function of the execution it may be followed by real destructors.
    let mut assert_faults = 0u64;
    if matches!(dry.status, LoomStatus::Completed) && dry.iterations <= max_iters_for_injection && rep.violations.is_empty() {
        let mut first: std::collections::BTreeMap<(usize, usize, u64), usize> = std::collections::BTreeMap::new();
        for (i, out) in tr.outcomes.iter().enumerate() {
            for tok in out.split_whitespace() {
                // "T<t>.<pc>=<val>"
                let tok = tok.trim_start_matches('T');
                let (lhs, val) = match tok.split_once('=') {
                    Some(x) => x,
                    None => continue,
                };
                let (t, c) = match lhs.split_once('.') {
                    Some(x) => x,
                    None => continue,
                };
                if let (Ok(t), Ok(c), Ok(v)) = (t.parse::<usize>(), c.parse::<usize>(), val.parse::<u64>()) {
                    first.entry((t, c, v)).or_insert(i + 1);
                }
            }
        }
        // the conditions that first hold latest, in the middle and at once
        let mut conds: Vec<((usize, usize, u64), usize)> = first.into_iter().filter(|((t, c, _), _)| *t < p.threads.len() && *c < p.threads[*t].len() && !matches!(p.threads[*t][*c], Op::If { .. })).collect();
        conds.sort_by_key(|(_, it)| *it);
        let mut picks: Vec<((usize, usize, u64), usize)> = Vec::new();
        if let Some(x) = conds.last() {
            picks.push(*x);
        }
        if conds.len() >= 3 {
            picks.push(conds[conds.len() / 2]);
        }
        if let Some(x) = conds.first() {
            picks.push(*x);
        }
        picks.dedup();
        let mut marker = 5000u32;
        for ((t, c, v), expected_iter) in picks {
            marker += 1;
            assert_faults += 1;
            let mut q = p.clone();
            q.threads[t].insert(c + 1, Op::If { pc: c as u8, eq: v, then: Box::new(Op::Panic { marker }) });
            for (i, op) in q.threads[t].iter_mut().enumerate() {
                if i == c + 1 {
                    continue;
                }
                if let Op::If { pc, .. } = op {
                    if *pc as usize > c {
                        *pc += 1;
                    }
                }
            }
            set_real_drops(true);
            let (run, tri) = trace_run(&q, cfg);
            set_real_drops(false);
            let ctx = format!("a panic raised when {} (T{} pc{}) returns {} (first in iteration {}), with the panicking thread dropping what it owns", p.threads[t][c], t, c, v, expected_iter);
            let ok_status = matches!(&run.status, LoomStatus::Failed { class: FailClass::UserPanic(m), .. } if *m == marker);
            let mut problem: Option<String> = None;
            if !ok_status {
                problem = Some(format!("expected the panic to reach the caller, got {:?}", run.status));
            } else if run.iterations + 1 != expected_iter {
                problem = Some(format!("the panic was raised in iteration {} instead of {}", run.iterations + 1, expected_iter));
            } else if tri.path_hashes[..] != tr.path_hashes[..run.iterations] {
                problem = Some("the iterations before the panic took different decisions than in the fault-free run".to_string());
            }
            if let Some(pb) = problem {
                rep.violations.push(Violation {
                    kind: "panic_propagation".into(),
                    detail: format!("{}: {}", ctx, pb),
                    known: None,
                    evidence: json!({"program_with_assertion": q.text()}),
                });
            }
            check_probe(&mut rep, ctx);
            if !rep.violations.is_empty() {
                break;
            }
        }
    }
    // F-two: two faults at once - "panic whenever op (t, pc) is reached" under every branch budget
    // below the need: whichever strikes first must unwind to the caller (the panic's destructors
    // run loom operations right at the limit)
    let mut two_faults = 0u64;
    if matches!(dry.status, LoomStatus::Completed) && dry.iterations <= max_iters_for_injection && tr.max_path >= 2 && tr.max_path <= 40 && rep.violations.is_empty() {
        // the op reached last in the first iteration of the thread that ran most
        if let Some((&(tid, pc), _)) = tr.reached.iter().filter(|(_, its)| its.first() == Some(&1)).max_by_key(|((t, pc), _)| (*pc, *t)) {
            let marker = 9001u32;
            let mut c2 = cfg.clone();
            for b in 1..tr.max_path {
                c2.max_branches = b;
                set_panic_fault(Some(PanicFault { tid, pc, hit: 1, marker }));
                set_real_drops(true);
                // (two independent failures: no blocking destructor, see `set_join_on_unwind`)
                set_join_on_unwind(false);
                let (run, _) = trace_run(p, &c2);
                set_join_on_unwind(true);
                set_real_drops(false);
                set_panic_fault(None);
                two_faults += 1;
                let ok = matches!(&run.status, LoomStatus::Failed { class: FailClass::BranchLimit, .. })
                    || matches!(&run.status, LoomStatus::Failed { class: FailClass::UserPanic(m), .. } if *m == marker);
                if !ok {
                    rep.violations.push(Violation {
                        kind: "panic_propagation".into(),
                        detail: format!("a panic whenever {} (T{} pc{}) is reached, under max_branches = {}: expected that panic or the branch-limit panic to reach the caller, got {:?}", p.threads[tid as usize][pc as usize], tid, pc, b, run.status),
                        known: None,
                        evidence: json!({"max_branches": b}),
                    });
                    break;
                }
                check_probe(&mut rep, format!("a panic at T{} pc{} under max_branches = {}", tid, pc, b));
                if !rep.violations.is_empty() {
                    break;
                }
            }
        }
    }
    // F-limit: the branch limit strikes in the middle of an execution (a panic raised by loom
    // itself, from inside an operation); with exactly the needed capacity nothing changes
    let mut limit_faults = 0u64;
    let branch_in_caught_unwind = p.threads.iter().flatten().any(|o| {
        o.is_caught() && !matches!(o.inner(), Op::Unlock { .. } | Op::RUnlock { .. } | Op::WUnlock { .. } | Op::TrackDrop { .. } | Op::Dealloc { .. } | Op::DropTx { .. } | Op::Unpark { .. })
    });
    if matches!(dry.status, LoomStatus::Completed) && dry.iterations <= max_iters_for_injection && tr.max_path >= 2 && rep.violations.is_empty() {
        let need = tr.max_path;
        let mut c2 = cfg.clone();
        // every budget below the need: the limit strikes at a different operation each time
        // (inside lock hand-overs, condvar waits, drops, ...)
        let budgets: Vec<usize> = if need <= 40 { (1..need).collect() } else { vec![1, need / 3, need / 2, need - 2, need - 1] };
        for b in budgets {
            c2.max_branches = b;
            // (loom's own panic is a function of the execution: real destructors follow)
            set_real_drops(true);
            let (run, _) = trace_run(p, &c2);
            set_real_drops(false);
            limit_faults += 1;
            // (loom does not enforce the limit at a branch performed while a panic unwinds - the
            // limit panic would be a double panic - so a budget that runs out inside the
            // destructor of a caught panic may go unnoticed if no branch follows)
            let tolerated = branch_in_caught_unwind && matches!(&run.status, LoomStatus::Completed);
            if !tolerated && !matches!(&run.status, LoomStatus::Failed { class: FailClass::BranchLimit, .. }) {
                rep.violations.push(Violation {
                    kind: "limit".into(),
                    detail: format!("the longest execution needs {} branches; with max_branches = {} the model should have panicked with the branch-limit message, got {:?}", need, b, run.status),
                    known: None,
                    evidence: json!({"need": need, "max_branches": b}),
                });
                break;
            }
            check_probe(&mut rep, format!("the branch limit ({}) was exceeded", b));
            if !rep.violations.is_empty() {
                break;
            }
        }
        c2.max_branches = need;
        let (run, tr3) = trace_run(p, &c2);
        if !matches!(run.status, LoomStatus::Completed) || tr3.iter_hashes != tr.iter_hashes {
            rep.violations.push(Violation {
                kind: "limit".into(),
                detail: format!("with max_branches = {} (exactly the need) the run should be identical to the unlimited one, got {:?} / {} iterations", need, run.status, run.iterations),
                known: None,
                evidence: json!({"need": need}),
            });
        }
    }
    // programs whose fault-free run already fails (deadlock, race, leak): squeeze the branch budget
    // as well - whatever strikes first must unwind to the caller and leave the process clean
    if matches!(dry.status, LoomStatus::Failed { .. }) && dry.iterations <= max_iters_for_injection && rep.violations.is_empty() {
        let mut c2 = cfg.clone();
        for b in 1..=24usize {
            c2.max_branches = b;
            let (run, _) = trace_run(p, &c2);
            limit_faults += 1;
            if matches!(run.status, LoomStatus::Completed | LoomStatus::Capped) {
                rep.violations.push(Violation {
                    kind: "limit".into(),
                    detail: format!("the unlimited run fails ({}) but with max_branches = {} the model completed", rep.status, b),
                    known: None,
                    evidence: json!({"max_branches": b}),
                });
                break;
            }
            check_probe(&mut rep, format!("max_branches = {} on a program that fails", b));
            if !rep.violations.is_empty() {
                break;
            }
        }
    }
    rep.extra.insert("fault_assert_panic_fired".into(), assert_faults);
    rep.extra.insert("fault_panic_at_branch_limit_fired".into(), two_faults);
    rep.extra.insert("unwinding_threads_with_real_drops".into(), REAL_DROP_UNWINDS.with(|c| c.replace(0)));
    rep.extra.insert("fault_branch_limit_fired".into(), limit_faults);
    rep.extra.insert("fault_panic_configured".into(), injected);
    rep.extra.insert("fault_panic_fired".into(), fired);
    rep.extra.insert("fault_loom_violation_fired".into(), loom_failures);
    rep.extra.insert("probe_runs".into(), probes);
    rep.sample = Some(json!({"program": rep.program, "dry_run_status": rep.status, "dry_run_iterations": rep.iterations, "panics_injected": injected}));
    rep
}
