//! C06: a failure in any explored execution fails the model run, and only then.
//!
//! For a sampled program the injection points are ENUMERATED: a panic is injected immediately
//! before every op (thread, pc), in the first / a middle / the last iteration that reaches that
//! op (the iterations are known from a fault-free dry run, which is also the "no iteration
//! panics => returns normally after exploring everything" half of the property). For each
//! injection `catch_unwind(Builder::check)` must return the injected panic, raised in exactly
//! the planned iteration, with the iterations before it identical to the dry run; the process
//! must neither abort nor hang (seen by the supervisor); and a fixed probe model run afterwards
//! in the same process must behave exactly as it does in a fresh one.

use crate::cases::*;
use crate::dsl::*;
use crate::interp::*;
use serde_json::json;

use crate::trace::*;

/// The probe: a fixed small model whose complete behaviour (sequence of iteration histories) is
/// known; run after every faulty model run to see that the next run starts clean.
fn probe_program() -> Program {
    let mut p = Program { atomics: vec![0, 0], n_mutex: 1, arcs: vec![vec![1]], ..Default::default() };
    p.threads = vec![
        vec![
            Op::Spawn { t: 1 },
            Op::Store { a: 0, v: 16, o: MO::Rlx },
            Op::Lock { m: 0 },
            Op::Load { a: 1, o: MO::Rlx },
            Op::Unlock { m: 0 },
            Op::ArcDrop { r: 0 },
            Op::Join { t: 1 },
        ],
        vec![Op::Store { a: 1, v: 32, o: MO::Rlx }, Op::Lock { m: 0 }, Op::Load { a: 0, o: MO::Rlx }, Op::Unlock { m: 0 }, Op::ArcCount { r: 0 }, Op::ArcDrop { r: 0 }],
    ];
    p
}

fn probe_signature() -> (String, usize, u64) {
    let p = probe_program();
    let cfg = Config::default();
    let (run, tr) = trace_run(&p, &cfg);
    let mut h: u64 = 0;
    for x in &tr.iter_hashes {
        h = h.wrapping_mul(0x100000001b3) ^ x;
    }
    (format!("{:?}", run.status), run.iterations, h)
}

pub fn run_c06_case(p: &Program, cfg: &Config, max_iters_for_injection: usize) -> CaseReport {
    let mut rep = CaseReport { program: p.text(), program_hash: p.hash(), nontrivial: p.nontrivial(), ..Default::default() };
    let clean_probe = probe_signature();
    set_panic_fault(None);
    let (dry, tr) = trace_run(p, cfg);
    rep.iterations = dry.iterations;
    rep.status = match &dry.status {
        LoomStatus::Completed => "completed".into(),
        LoomStatus::Capped => "capped".into(),
        LoomStatus::Failed { class, .. } => format!("failed:{:?}", class),
    };
    rep.too_large = matches!(dry.status, LoomStatus::Capped);
    let mut injected = 0u64;
    let mut fired = 0u64;
    let mut loom_failures = 0u64;
    let mut probes = 0u64;
    let mut check_probe = |rep: &mut CaseReport, context: String| {
        probes += 1;
        let sig = probe_signature();
        if sig != clean_probe {
            rep.violations.push(Violation {
                kind: "unclean_after_failure".into(),
                detail: format!("a probe model run after {} behaves differently from a fresh run: {:?} vs {:?}", context, sig, clean_probe),
                known: None,
                evidence: json!({"context": context}),
            });
        }
    };
    match &dry.status {
        LoomStatus::Failed { class, .. } => {
            // F-violation: loom itself raised (deadlock / race / leak): it unwound (we are here);
            // the next run must be clean
            loom_failures += 1;
            check_probe(&mut rep, format!("loom reported {:?}", class));
        }
        LoomStatus::Capped => {}
        LoomStatus::Completed => {
            if dry.iterations <= max_iters_for_injection {
                // determinism of the dry run is a precondition of the comparison below
                let (dry2, tr2) = trace_run(p, cfg);
                if dry2.iterations != dry.iterations || tr2.iter_hashes != tr.iter_hashes {
                    rep.violations.push(Violation {
                        kind: "nondeterministic".into(),
                        detail: format!("two fault-free runs differ: {} vs {} iterations", dry.iterations, dry2.iterations),
                        known: None,
                        evidence: json!({}),
                    });
                } else {
                    let mut marker = 1000u32;
                    for (&(tid, pc), iters) in &tr.reached {
                        let n = iters.len();
                        let mut hits: Vec<usize> = vec![1, (n + 1) / 2, n];
                        hits.sort();
                        hits.dedup();
                        for hit in hits {
                            marker += 1;
                            injected += 1;
                            let expected_iter = iters[hit - 1];
                            let fault = PanicFault { tid, pc, hit: hit as u32, marker };
                            set_panic_fault(Some(fault));
                            let (run, tri) = trace_run(p, cfg);
                            let did_fire = panic_fault_fired();
                            set_panic_fault(None);
                            if did_fire {
                                fired += 1;
                            }
                            let ctx = format!("a panic injected before {} (T{} pc{}) at its hit #{} (iteration {})", p.threads[tid as usize][pc as usize], tid, pc, hit, expected_iter);
                            let ok_status = matches!(&run.status, LoomStatus::Failed { class: FailClass::UserPanic(m), .. } if *m == marker);
                            let mut problem: Option<String> = None;
                            if !ok_status {
                                problem = Some(format!("expected the injected panic to reach the caller, got {:?}", run.status));
                            } else if run.iterations + 1 != expected_iter {
                                problem = Some(format!("the panic was raised in iteration {} instead of {}", run.iterations + 1, expected_iter));
                            } else if tri.iter_hashes[..] != tr.iter_hashes[..run.iterations] {
                                problem = Some("the iterations before the panic differ from the fault-free run".to_string());
                            }
                            if let Some(pb) = problem {
                                rep.violations.push(Violation {
                                    kind: "panic_propagation".into(),
                                    detail: format!("{}: {}", ctx, pb),
                                    known: None,
                                    evidence: json!({"fault": fault}),
                                });
                            }
                            check_probe(&mut rep, ctx);
                            if rep.violations.len() >= 3 {
                                break;
                            }
                        }
                        if rep.violations.len() >= 3 {
                            break;
                        }
                    }
                }
            }
        }
    }
    // F-limit: the branch limit strikes in the middle of an execution (a panic raised by loom
    // itself, from inside an operation); with exactly the needed capacity nothing changes
    let mut limit_faults = 0u64;
    let branch_in_caught_unwind = p.threads.iter().flatten().any(|o| {
        o.is_caught() && !matches!(o.inner(), Op::Unlock { .. } | Op::RUnlock { .. } | Op::WUnlock { .. } | Op::TrackDrop { .. } | Op::Dealloc { .. } | Op::DropTx { .. } | Op::Unpark { .. })
    });
    if matches!(dry.status, LoomStatus::Completed) && dry.iterations <= max_iters_for_injection && tr.max_path >= 2 && rep.violations.is_empty() {
        let need = tr.max_path;
        let mut c2 = cfg.clone();
        // every budget below the need: the limit strikes at a different operation each time
        // (inside lock hand-overs, condvar waits, drops, ...)
        let budgets: Vec<usize> = if need <= 40 { (1..need).collect() } else { vec![1, need / 3, need / 2, need - 2, need - 1] };
        for b in budgets {
            c2.max_branches = b;
            let (run, _) = trace_run(p, &c2);
            limit_faults += 1;
            // (loom does not enforce the limit at a branch performed while a panic unwinds - the
            // limit panic would be a double panic - so a budget that runs out inside the
            // destructor of a caught panic may go unnoticed if no branch follows)
            let tolerated = branch_in_caught_unwind && matches!(&run.status, LoomStatus::Completed);
            if !tolerated && !matches!(&run.status, LoomStatus::Failed { class: FailClass::BranchLimit, .. }) {
                rep.violations.push(Violation {
                    kind: "limit".into(),
                    detail: format!("the longest execution needs {} branches; with max_branches = {} the model should have panicked with the branch-limit message, got {:?}", need, b, run.status),
                    known: None,
                    evidence: json!({"need": need, "max_branches": b}),
                });
                break;
            }
            check_probe(&mut rep, format!("the branch limit ({}) was exceeded", b));
            if !rep.violations.is_empty() {
                break;
            }
        }
        c2.max_branches = need;
        let (run, tr3) = trace_run(p, &c2);
        if !matches!(run.status, LoomStatus::Completed) || tr3.iter_hashes != tr.iter_hashes {
            rep.violations.push(Violation {
                kind: "limit".into(),
                detail: format!("with max_branches = {} (exactly the need) the run should be identical to the unlimited one, got {:?} / {} iterations", need, run.status, run.iterations),
                known: None,
                evidence: json!({"need": need}),
            });
        }
    }
    // programs whose fault-free run already fails (deadlock, race, leak): squeeze the branch budget
    // as well - whatever strikes first must unwind to the caller and leave the process clean
    if matches!(dry.status, LoomStatus::Failed { .. }) && dry.iterations <= max_iters_for_injection && rep.violations.is_empty() {
        let mut c2 = cfg.clone();
        for b in 1..=24usize {
            c2.max_branches = b;
            let (run, _) = trace_run(p, &c2);
            limit_faults += 1;
            if matches!(run.status, LoomStatus::Completed | LoomStatus::Capped) {
                rep.violations.push(Violation {
                    kind: "limit".into(),
                    detail: format!("the unlimited run fails ({}) but with max_branches = {} the model completed", rep.status, b),
                    known: None,
                    evidence: json!({"max_branches": b}),
                });
                break;
            }
            check_probe(&mut rep, format!("max_branches = {} on a program that fails", b));
            if !rep.violations.is_empty() {
                break;
            }
        }
    }
    rep.extra.insert("fault_branch_limit_fired".into(), limit_faults);
    rep.extra.insert("fault_panic_configured".into(), injected);
    rep.extra.insert("fault_panic_fired".into(), fired);
    rep.extra.insert("fault_loom_violation_fired".into(), loom_failures);
    rep.extra.insert("probe_runs".into(), probes);
    rep.sample = Some(json!({"program": rep.program, "dry_run_status": rep.status, "dry_run_iterations": rep.iterations, "panics_injected": injected}));
    rep
}
