//! The reference machine: a small, loom-free executable model of the DSL.
//!
//! It is driven either by a seeded scheduler (random MUST-walks: the scheduler decides which thread
//! steps, which store a load reads, where a store lands in modification order) or by a recorded
//! loom history (guided MAY-replay: every returned value must be one the machine can produce at
//! that point). All nondeterminism goes through `Choose`.
//!
//! MUST/MAY differences are listed in DESIGN.md section 4.1 and are confined to the places marked
//! `[envelope]` below.

use crate::dsl::*;
use crate::graph::*;
use std::collections::VecDeque;

/// sub-states of `BlockOn`
pub const BO_REG_FIRST: u8 = 1;
pub const BO_CHECK: u8 = 2;
pub const BO_REG_AFTER: u8 = 3;
pub const BO_WAIT: u8 = 4;
pub const BO2_CHECK_A: u8 = 5;
pub const BO2_CHECK_B: u8 = 6;
pub const BO2_READY: u8 = 7;

pub trait Choose {
    /// pick one of `n` alternatives (n >= 1)
    fn choose(&mut self, n: usize) -> usize;
}

pub struct RandomChoose<'a>(pub &'a mut crate::rng::Rng);
impl<'a> Choose for RandomChoose<'a> {
    fn choose(&mut self, n: usize) -> usize {
        if n <= 1 {
            0
        } else {
            self.0.below(n)
        }
    }
}

/// Follows a script, then always picks 0; records (chosen, n) for every choice point so that a
/// driver can enumerate all paths depth-first.
#[derive(Default, Clone, Debug)]
pub struct ScriptChoose {
    pub script: Vec<usize>,
    pub taken: Vec<(usize, usize)>,
}
impl Choose for ScriptChoose {
    fn choose(&mut self, n: usize) -> usize {
        let i = self.taken.len();
        let c = if i < self.script.len() { self.script[i].min(n - 1) } else { 0 };
        self.taken.push((c, n));
        c
    }
}
impl ScriptChoose {
    /// advance to the next script in DFS order; false when exhausted
    pub fn next_script(&mut self) -> bool {
        let mut t = std::mem::take(&mut self.taken);
        while let Some((c, n)) = t.pop() {
            if c + 1 < n {
                self.script = t.iter().map(|x| x.0).collect();
                self.script.push(c + 1);
                return true;
            }
        }
        false
    }
}

/// sub-states of the predicate-loop waits (`CvWaitUntil`, `NWaitUntil`)
pub const WU_CHECK: u8 = 0;
pub const WU_ENQ: u8 = 1;
pub const WU_WAIT: u8 = 2;

enum CvPhase {
    NoOp,
    Enqueued,
    Woken,
}

#[derive(Clone, Debug, PartialEq, Eq, Hash)]
pub enum Terminal {
    Done,
    Deadlock,
    Race,
    Leak(String),
    /// a spin loop whose condition can never become true
    Livelock,
    /// a lock whose guard was dropped by an unwinding panic (poisoned) was acquired again:
    /// `lock().unwrap()` panics
    Poison,
}

#[derive(Clone, Debug, Default)]
struct Th {
    started: bool,
    done: bool,
    pc: usize,
    /// sub-step inside a compound op (CvWait: 0 = before enqueue, 1 = waiting)
    sub: u8,
    park_token: bool,
    /// every unpark absorbed into the stored token since it was last consumed: `park` synchronises
    /// with all of them (std: the token is an RMW chain, a release sequence; loom: clock join)
    token_src: Vec<usize>,
    /// hb sources to attach to the next event of this thread
    wake_src: Vec<usize>,
    /// condvar bookkeeping while in CvWait phase 2
    cv_notified: Option<usize>,
    cv_spurious_ok: Option<usize>,
    start_ev: Option<usize>,
    in_region: bool,
    tls_init: [bool; 2],
    /// write events this thread has read or written
    seen: Vec<usize>,
    /// ... as of its last definite yield
    seen_before_yield: Vec<usize>,
}

#[derive(Clone, Debug, Default)]
struct MutexSt {
    owner: Option<u8>,
    last_unlock: Option<usize>,
    poisoned: bool,
}

#[derive(Clone, Debug, Default)]
struct RwSt {
    writer: Option<u8>,
    readers: Vec<u8>,
    last_wunlock: Option<usize>,
    runlocks: Vec<usize>,
    poisoned: bool,
}

#[derive(Clone, Debug, Default)]
struct CvSt {
    waiters: Vec<u8>,
    /// [envelope] MAY: lazily matched notify_one permits: (eligible waiters, notify event)
    permits: Vec<(Vec<u8>, usize)>,
}

#[derive(Clone, Debug, Default)]
struct NotifySt {
    flag: bool,
    /// every notification since the last consumption (the waiter acquires from all of them)
    src: Vec<usize>,
    spurious_used: bool,
}

#[derive(Clone, Debug, Default)]
struct ChanSt {
    queue: VecDeque<(u64, usize)>,
    sends: Vec<usize>,
    rx_alive: bool,
    /// messages sent after the receiver was dropped (held by the channel object in loom)
    dead_letters: usize,
}

#[derive(Clone, Debug, Default)]
struct ArcSt {
    count: usize,
    payload_dropped: bool,
    /// handles held per thread
    held: Vec<usize>,
    /// handles in transit to a thread (given but not yet taken)
    drops: Vec<usize>,
    forgotten: usize,
    /// events of the handle drops so far (release points)
    drop_events: Vec<usize>,
    /// handles handed back by finished threads
    returned: usize,
}

#[derive(Clone, Debug)]
pub struct MachineCfg {
    pub reading: Reading,
    pub dev: Deviation,
    /// C01 mode: atomics have interleaving (SC) semantics - a load reads the latest store
    pub sc_atomics: bool,
    /// Must-side deviation D-rmw-reads-executed-max (attribution of known finding K5)
    pub rmw_reads_mo_max_only: bool,
    /// [envelope] loom's scheduling granularity (known finding K6): a thread is never preempted
    /// immediately before an operation that has no scheduling point in loom (unlock, cell
    /// access, fence, spawn, unpark, ...). MUST walks use it, so that they only demand what is
    /// reachable at that granularity; the complementary schedules are probed by K6's witnesses.
    pub switch_only_at_branch_points: bool,
    /// C19: a thread between its stop_exploring() and explore() is not preempted
    pub regions_atomic: bool,
    /// Must-side deviation D-sc-load-follows-execution-order (attribution of known finding K8): a
    /// SeqCst load never reads a SeqCst store once a mo-later SeqCst store to the same location
    /// has been executed (loom takes the execution order for the SC order)
    pub sc_load_skips_overwritten_sc_store: bool,
    /// Must-side deviation D-yield-prunes-seen-stores (attribution of known finding K9): after a
    /// yield a thread is never offered a store it had already seen before the yield once a
    /// modification-order-later store exists (loom's progress heuristic, applied to every load)
    pub yield_prunes_seen: bool,
    /// loom's scheduling of `yield_now` (attribution only): a thread that yielded in a spin loop
    /// is resumed only when no other thread can run. Outcomes are lost to this rule only in
    /// combination with the execution-order dependent deviations above, so the deviation machines
    /// use it and the plain MUST machine does not.
    pub spinner_resumes_last: bool,
}

impl MachineCfg {
    pub fn must() -> MachineCfg {
        MachineCfg { reading: Reading::Must, dev: Deviation::default(), sc_atomics: false, rmw_reads_mo_max_only: false, switch_only_at_branch_points: true, regions_atomic: false, sc_load_skips_overwritten_sc_store: false, yield_prunes_seen: false, spinner_resumes_last: false }
    }
    pub fn may() -> MachineCfg {
        MachineCfg { reading: Reading::May, dev: Deviation::default(), sc_atomics: false, rmw_reads_mo_max_only: false, switch_only_at_branch_points: false, regions_atomic: false, sc_load_skips_overwritten_sc_store: false, yield_prunes_seen: false, spinner_resumes_last: false }
    }
}

#[derive(Clone)]
pub struct Machine<'p> {
    pub p: &'p Program,
    pub cfg: MachineCfg,
    /// guided replay: mo is not chosen at stores, it is searched for at the end
    pub guided: bool,
    th: Vec<Th>,
    pub g: Graph,
    mutex: Vec<MutexSt>,
    rw: Vec<RwSt>,
    cv: Vec<CvSt>,
    notify: Vec<NotifySt>,
    chan: Vec<ChanSt>,
    arc: Vec<ArcSt>,
    track_live: Vec<Vec<bool>>,
    block_live: Vec<Vec<bool>>,
    last_sc_fence: Option<usize>,
    cell_val: Vec<u64>,
    lazy_init_ev: [Option<usize>; 2],
    /// shared AtomicWaker: Some(event of the registration) while a waker is registered
    aw_slot: Option<(usize, u8, u32)>,
    /// generation of each thread's block_on calls (a registered waker belongs to one call)
    bo_gen: Vec<u32>,
    aw_last_unlock: Option<usize>,
    waker_slots: [Option<(u8, u32)>; 2],
    /// per thread: the Notify of its current block_on: notified flag + source, spurious used
    bo: Vec<NotifySt>,
    /// guided replay: a cell read returned something else than the latest write (only legal in
    /// an execution that has a data race)
    pub cell_mismatch: bool,
    /// edges that belong to the largest happens-before only (kept apart in MAY mode)
    pub extra_large: Vec<(usize, usize)>,
    pub results: Vec<Vec<Option<u64>>>,
    /// executed (thread, pc) in order
    pub trace: Vec<(u8, u16)>,
    /// set when a data race was detected (event pair)
    pub race: Option<(usize, usize)>,
    /// a poisoned lock was acquired (the acquirer panics)
    pub poison_hit: bool,
    /// reach probes
    pub probe_load_multi: u32,
    pub probe_blocked_then_woken: u32,
    pub probe_rmw_nonlatest: u32,
}

pub enum StepErr {
    /// the expected result cannot be produced here (guided replay)
    Reject(String),
}

impl<'p> Machine<'p> {
    pub fn new(p: &'p Program, cfg: MachineCfg, guided: bool) -> Machine<'p> {
        let nt = p.n_threads();
        let mut g = Graph::new(nt, p.atomics.len());
        for (a, &v) in p.atomics.iter().enumerate() {
            let e = g.push(Ev {
                tid: INIT_TID,
                pc: 0,
                kind: EK::W,
                loc: a as u16,
                ord: MO::Rlx,
                rval: 0,
                wval: v,
                na: false,
                na_write: false,
            });
            g.mo[a].push(e);
        }
        let mut th = vec![Th::default(); nt];
        th[0].started = true;
        let mut m = Machine {
            p,
            cfg,
            guided,
            th,
            g,
            mutex: vec![MutexSt::default(); p.n_mutex as usize],
            rw: vec![RwSt::default(); p.n_rwlock as usize],
            cv: vec![CvSt::default(); p.n_condvar as usize],
            notify: vec![NotifySt::default(); p.n_notify as usize],
            chan: (0..p.n_chan).map(|_| ChanSt { rx_alive: true, ..Default::default() }).collect(),
            arc: p
                .arcs
                .iter()
                .map(|owners| {
                    let mut held = vec![0usize; nt];
                    held[0] = 1;
                    for &o in owners {
                        if o != 0 {
                            held[o as usize] += 1;
                        }
                    }
                    ArcSt { count: held.iter().sum(), payload_dropped: false, held, drops: vec![0; nt], forgotten: 0, drop_events: Vec::new(), returned: 0 }
                })
                .collect(),
            track_live: vec![vec![false; p.n_track as usize]; nt],
            block_live: vec![vec![false; p.n_block as usize]; nt],
            last_sc_fence: None,
            cell_val: vec![0; p.n_cell as usize],
            lazy_init_ev: [None; 2],
            aw_slot: None,
            bo_gen: vec![0; nt],
            aw_last_unlock: None,
            waker_slots: [None, None],
            bo: vec![NotifySt::default(); nt],
            cell_mismatch: false,
            extra_large: Vec::new(),
            results: p.threads.iter().map(|t| vec![None; t.len()]).collect(),
            trace: Vec::new(),
            race: None,
            poison_hit: false,
            probe_load_multi: 0,
            probe_blocked_then_woken: 0,
            probe_rmw_nonlatest: 0,
        };
        // main creates the atomics: it has "seen" their initial values (relevant to deviation K9)
        m.th[0].seen = (0..p.atomics.len()).collect();
        // main's start event
        let e = m.push_ev(0, 0, EK::Sync, NOLOC, MO::Rlx);
        m.th[0].start_ev = Some(e);
        if m.th[0].pc >= p.threads[0].len() {
            m.th[0].done = true;
        }
        m
    }

    fn push_ev(&mut self, t: usize, pc: usize, kind: EK, loc: u16, ord: MO) -> usize {
        let e = self.g.push(Ev { tid: t as u8, pc: pc as u16, kind, loc, ord, rval: 0, wval: 0, na: false, na_write: false });
        let srcs = std::mem::take(&mut self.th[t].wake_src);
        for s in srcs {
            self.g.extra.push((s, e));
        }
        e
    }

    pub fn all_done(&self) -> bool {
        self.th.iter().all(|t| !t.started || t.done)
    }

    pub fn thread_in_region(&self, t: usize) -> bool {
        self.th[t].in_region
    }
    pub fn thread_done(&self, t: usize) -> bool {
        self.th[t].done
    }
    pub fn thread_started(&self, t: usize) -> bool {
        self.th[t].started
    }
    pub fn pc(&self, t: usize) -> usize {
        self.th[t].pc
    }
    pub fn sub(&self, t: usize) -> u8 {
        self.th[t].sub
    }

    fn cur_op(&self, t: usize) -> Option<&'p Op> {
        let th = &self.th[t];
        if !th.started || th.done {
            return None;
        }
        self.p.threads[t].get(th.pc)
    }

    /// resolve `If`: returns the op to execute, or None if the condition is false
    fn effective<'a>(&self, t: usize, op: &'a Op) -> Option<&'a Op> {
        match op {
            Op::If { pc, eq, then } => {
                if self.results[t][*pc as usize] == Some(*eq) {
                    self.effective(t, then)
                } else {
                    None
                }
            }
            // the op performed while a caught panic unwinds has the semantics of the op itself
            // (plus lock poisoning, see `step`)
            Op::Caught { op } => self.effective(t, op),
            o => Some(o),
        }
    }

    /// Can thread `t` take its next (sub-)step now?
    pub fn enabled(&mut self, t: usize) -> bool {
        if self.poison_hit {
            // the acquiring thread panicked: the execution is over
            return false;
        }
        let op = match self.cur_op(t) {
            Some(op) => op,
            None => return false,
        };
        let op = match self.effective(t, op) {
            Some(op) => op,
            None => return true,
        };
        let tid = t as u8;
        match *op {
            Op::Join { t: c } => self.th[c as usize].started && self.th[c as usize].done,
            Op::Park => self.th[t].park_token,
            Op::Lock { m } => self.mutex[m as usize].owner.is_none(),
            // (a no-op if the thread holds m itself: the interpreter skips it then)
            Op::UnwindLock { m } => {
                let o = self.mutex[m as usize].owner;
                o.is_none() || o == Some(tid)
            }
            Op::RLock { l } => self.rw[l as usize].writer.is_none(),
            Op::WLock { l } => {
                let r = &self.rw[l as usize];
                r.writer.is_none() && r.readers.is_empty()
            }
            Op::CvWait { c, m } => {
                if self.th[t].sub == 0 {
                    true
                } else {
                    let woken = self.th[t].cv_notified.is_some()
                        || self.th[t].cv_spurious_ok.is_some()
                        || self.cv[c as usize].permits.iter().any(|(el, _)| el.contains(&tid));
                    woken && self.mutex[m as usize].owner.is_none()
                }
            }
            Op::CvWaitUntil { c, m, .. } => {
                if self.th[t].sub == WU_WAIT {
                    let woken = self.th[t].cv_notified.is_some()
                        || self.th[t].cv_spurious_ok.is_some()
                        || self.cv[c as usize].permits.iter().any(|(el, _)| el.contains(&tid));
                    woken && self.mutex[m as usize].owner.is_none()
                } else {
                    true
                }
            }
            Op::NWait { n } => {
                let st = &self.notify[n as usize];
                // [envelope] MAY: one spurious return per Notify object
                st.flag || (self.cfg.reading == Reading::May && !st.spurious_used)
            }
            Op::NWaitUntil { n, .. } => {
                if self.th[t].sub == WU_WAIT {
                    let st = &self.notify[n as usize];
                    st.flag || (self.cfg.reading == Reading::May && !st.spurious_used)
                } else {
                    true
                }
            }
            Op::Recv { c } => !self.chan[c as usize].queue.is_empty(),
            Op::BlockOn2 { .. } => match self.th[t].sub {
                BO_WAIT => {
                    let st = &self.bo[t];
                    st.flag || (self.cfg.reading == Reading::May && !st.spurious_used)
                }
                _ => true,
            },
            Op::BlockOn { a, o, .. } => match self.th[t].sub {
                BO_WAIT => {
                    let st = &self.bo[t];
                    st.flag || (self.cfg.reading == Reading::May && !st.spurious_used)
                }
                BO_CHECK => !self.read_candidates(t, a, o, None, false).is_empty(),
                _ => true,
            },
            Op::AwaitY { a, o, v } => !self.read_candidates(t, a, o, Some(v), false).is_empty(),
            Op::Await { a, o, v } => {
                if !self.guided && self.th[t].sub == 0 {
                    // the first check: it may fail (the loop then waits) or succeed
                    true
                } else if !self.read_candidates(t, a, o, Some(v), false).is_empty() {
                    if !self.guided && self.cfg.spinner_resumes_last {
                        // loom resumes a yielded thread only when nothing else can run
                        let mut other = false;
                        for u in 0..self.th.len() {
                            if u != t && !self.is_resumed_spinner(u) && self.enabled(u) {
                                other = true;
                                break;
                            }
                        }
                        !other
                    } else {
                        true
                    }
                } else {
                    false
                }
            }
            _ => true,
        }
    }

    fn is_resumed_spinner(&self, u: usize) -> bool {
        matches!(self.cur_op(u).and_then(|o| self.effective(u, o)), Some(Op::Await { .. })) && self.th[u].sub == 1
    }

    /// `enabled` without the MAY-only allowances (spurious wake-ups): used to justify a deadlock
    /// report - a spurious wake-up is permitted, never guaranteed.
    pub fn enabled_strict(&mut self, t: usize) -> bool {
        let op = match self.cur_op(t) {
            Some(op) => op,
            None => return false,
        };
        let op = match self.effective(t, op) {
            Some(op) => op,
            None => return true,
        };
        let tid = t as u8;
        match *op {
            Op::NWait { n } => self.notify[n as usize].flag,
            Op::NWaitUntil { n, .. } if self.th[t].sub == WU_WAIT => self.notify[n as usize].flag,
            Op::CvWaitUntil { c, m, .. } if self.th[t].sub == WU_WAIT => {
                let woken = self.th[t].cv_notified.is_some()
                    || self.cv[c as usize].permits.iter().any(|(el, _)| el.contains(&tid));
                woken && self.mutex[m as usize].owner.is_none()
            }
            Op::BlockOn { .. } | Op::BlockOn2 { .. } if self.th[t].sub == BO_WAIT => self.bo[t].flag,
            Op::CvWait { c, m } if self.th[t].sub == 1 => {
                let woken = self.th[t].cv_notified.is_some()
                    || self.cv[c as usize].permits.iter().any(|(el, _)| el.contains(&tid));
                woken && self.mutex[m as usize].owner.is_none()
            }
            _ => self.enabled(t),
        }
    }

    /// Does the next step of `t` correspond to a loom operation without a scheduling point?
    pub fn next_is_nonbranching(&self, t: usize) -> bool {
        let op = match self.cur_op(t) {
            Some(op) => op,
            None => return false,
        };
        let op = match self.effective(t, op) {
            Some(op) => op,
            None => return true,
        };
        matches!(
            op,
            Op::Fence { .. }
                | Op::AWithMut { .. }
                | Op::AUnsyncLoad { .. }
                | Op::Spawn { .. }
                // park checks the token and blocks before its scheduling point
                | Op::Park
                | Op::Unpark { .. }
                | Op::Unlock { .. }
                | Op::RUnlock { .. }
                | Op::WUnlock { .. }
                | Op::CRead { .. }
                | Op::CWrite { .. }
                | Op::DropTx { .. }
                | Op::TrackNew { .. }
                | Op::TrackDrop { .. }
                | Op::Alloc { .. }
                | Op::Dealloc { .. }
                | Op::ArcForget { .. }
                | Op::ArcReturn { .. }
                | Op::ArcCollect { .. }
                | Op::ArcRawRoundTrip { .. }
                | Op::StopExploring
                | Op::Explore
                | Op::SkipBranch
                | Op::TlsWith { .. }
                | Op::TlsNested { .. }
                | Op::LazyGet { .. }
        )
    }

    pub fn is_block_on(&self, t: usize) -> bool {
        matches!(self.cur_op(t).and_then(|o| self.effective(t, o)), Some(Op::BlockOn { .. }) | Some(Op::BlockOn2 { .. }))
    }
    pub fn is_block_on2(&self, t: usize) -> bool {
        matches!(self.cur_op(t).and_then(|o| self.effective(t, o)), Some(Op::BlockOn2 { .. }))
    }
    pub fn block_on2_ready(&self, t: usize) -> bool {
        self.th[t].sub == BO2_READY
    }
    pub fn block_on_value(&self, t: usize) -> Option<u64> {
        match self.cur_op(t).and_then(|o| self.effective(t, o)) {
            Some(Op::BlockOn { v, .. }) => Some(*v),
            _ => None,
        }
    }
    /// after a Pending poll with check-then-register the registration is still due
    pub fn block_on_can_advance_to_wait(&self, t: usize) -> bool {
        self.is_block_on(t) && self.th[t].sub == BO_REG_AFTER
    }

    /// The thread has invoked a compound op whose hidden first phase has not happened yet.
    pub fn in_compound_first_phase(&self, t: usize) -> bool {
        match self.cur_op(t).and_then(|o| self.effective(t, o)) {
            Some(Op::CvWait { m, .. }) => self.th[t].sub == 0 && self.mutex[*m as usize].owner == Some(t as u8),
            // the wait inside a predicate loop (enqueue + unlock, wake-up + re-lock) leaves no
            // event of its own
            Some(Op::CvWaitUntil { .. }) | Some(Op::NWaitUntil { .. }) => self.th[t].sub != WU_CHECK,
            // registration and wake-up inside block_on leave no event of their own
            Some(Op::AwWake) | Some(Op::SlotWake { .. }) => self.guided && self.th[t].sub == 0,
            Some(Op::BlockOn2 { .. }) => self.th[t].sub == BO_WAIT || self.th[t].sub == 0,
            Some(Op::BlockOn { reg_first, .. }) => matches!(self.th[t].sub, BO_REG_FIRST | BO_REG_AFTER | BO_WAIT) || (self.th[t].sub == 0 && *reg_first),
            _ => false,
        }
    }

    pub fn is_wait_until(&self, t: usize) -> bool {
        matches!(self.cur_op(t).and_then(|o| self.effective(t, o)), Some(Op::CvWaitUntil { .. }) | Some(Op::NWaitUntil { .. }))
    }

    pub fn wait_until_at_check(&self, t: usize) -> bool {
        self.th[t].sub == WU_CHECK
    }

    pub fn wait_until_must_enqueue(&self, t: usize) -> bool {
        self.th[t].sub == WU_ENQ
    }

    pub fn wait_until_value(&self, t: usize) -> Option<u64> {
        match self.cur_op(t).and_then(|o| self.effective(t, o)) {
            Some(Op::CvWaitUntil { m, v, .. }) => {
                if self.mutex[*m as usize].owner == Some(t as u8) {
                    Some(*v)
                } else {
                    None
                }
            }
            Some(Op::NWaitUntil { v, .. }) => Some(*v),
            _ => None,
        }
    }

    /// Guided replay of a failed `Await` spin iteration: a read of value `v` that does not
    /// complete the op.
    pub fn spin_read(&mut self, t: usize, v: u64, ch: &mut dyn Choose) -> Result<(), StepErr> {
        let pc = self.th[t].pc;
        let (a, o) = match self.cur_op(t).and_then(|o| self.effective(t, o)) {
            Some(Op::Await { a, o, .. }) | Some(Op::AwaitY { a, o, .. }) => (*a, *o),
            _ => return Err(StepErr::Reject(format!("T{}: spin event outside an await", t))),
        };
        let w = self.pick_read(t, a, o, false, Some(v), ch)?;
        self.do_read(t, pc, a, o, w, false);
        if matches!(self.cur_op(t).and_then(|o| self.effective(t, o)), Some(Op::Await { .. })) {
            // the loop had to wait (and yields after the failed check)
            self.th[t].sub = 1;
            self.th[t].seen_before_yield = self.th[t].seen.clone();
        }
        Ok(())
    }

    /// Is the thread blocked in a state from which only another thread can release it?
    pub fn blocked(&mut self, t: usize) -> bool {
        self.cur_op(t).is_some() && !self.enabled(t)
    }

    // ------------------------------------------------------------------ atomics

    /// Write events a read of location `a` by thread `t` could read from right now.
    /// In walk mode this filters by full consistency; in guided mode by value only.
    fn read_candidates(&mut self, t: usize, a: u8, o: MO, want: Option<u64>, rmw: bool) -> Vec<usize> {
        let ws = self.g.writes_of(a as u16);
        if self.cfg.sc_atomics {
            let last = *self.g.mo[a as usize].last().unwrap();
            return match want {
                Some(v) if self.g.evs[last].wval != v => vec![],
                _ => vec![last],
            };
        }
        let mut out = Vec::new();
        for &w in &ws {
            if let Some(v) = want {
                if self.g.evs[w].wval != v {
                    continue;
                }
            }
            if self.guided {
                out.push(w);
                continue;
            }
            if rmw && self.cfg.rmw_reads_mo_max_only && *self.g.mo[a as usize].last().unwrap() != w {
                continue;
            }
            if self.cfg.yield_prunes_seen && self.th[t].seen_before_yield.contains(&w) && *self.g.mo[a as usize].last().unwrap() != w {
                continue;
            }
            if self.cfg.sc_load_skips_overwritten_sc_store && o.is_sc() && self.g.evs[w].ord.is_sc() && self.g.evs[w].tid != INIT_TID {
                let m = &self.g.mo[a as usize];
                let pos = m.iter().position(|&x| x == w).unwrap();
                if m[pos + 1..].iter().any(|&x| self.g.evs[x].ord.is_sc() && self.g.evs[x].kind != EK::R) {
                    continue;
                }
            }
            // tentative read
            let pc = self.th[t].pc;
            let e = self.g.push(Ev {
                tid: t as u8,
                pc: pc as u16,
                kind: if rmw { EK::U } else { EK::R },
                loc: a as u16,
                ord: o,
                rval: self.g.evs[w].wval,
                wval: 0,
                na: false,
                na_write: false,
            });
            // pending wake sources matter for hb
            let added: Vec<(usize, usize)> = self.th[t].wake_src.iter().map(|&s| (s, e)).collect();
            self.g.extra.extend(added.iter().cloned());
            self.g.rf[e] = Some(w);
            if rmw {
                let pos = self.g.mo[a as usize].iter().position(|&x| x == w).unwrap();
                self.g.mo[a as usize].insert(pos + 1, e);
            }
            let ok = self.g.consistent_total(self.cfg.reading, self.cfg.dev);
            self.g.pop();
            if ok {
                out.push(w);
            }
        }
        out
    }

    fn do_read(&mut self, t: usize, pc: usize, a: u8, o: MO, w: usize, na: bool) -> usize {
        let e = self.push_ev(t, pc, EK::R, a as u16, o);
        self.g.evs[e].rval = self.g.evs[w].wval;
        self.g.evs[e].na = na;
        self.g.rf[e] = Some(w);
        self.th[t].seen.push(w);
        e
    }

    fn do_write(&mut self, t: usize, pc: usize, a: u8, o: MO, v: u64, na: bool, ch: &mut dyn Choose) -> usize {
        let e = self.push_ev(t, pc, EK::W, a as u16, o);
        self.g.evs[e].wval = v;
        self.g.evs[e].na = na;
        self.g.evs[e].na_write = na;
        self.th[t].seen.push(e);
        if self.guided {
            return e;
        }
        let len = self.g.mo[a as usize].len();
        if self.cfg.sc_atomics {
            self.g.mo[a as usize].push(e);
            return e;
        }
        let mut ok_pos = Vec::new();
        for pos in 1..=len {
            self.g.mo[a as usize].insert(pos, e);
            if self.g.consistent_total(self.cfg.reading, self.cfg.dev) {
                ok_pos.push(pos);
            }
            self.g.mo[a as usize].remove(pos);
        }
        assert!(!ok_pos.is_empty(), "store has no consistent mo position (appending is always consistent)");
        let pos = ok_pos[ch.choose(ok_pos.len())];
        self.g.mo[a as usize].insert(pos, e);
        e
    }

    fn do_update(&mut self, t: usize, pc: usize, a: u8, o: MO, w: usize, newv: u64) -> usize {
        let e = self.push_ev(t, pc, EK::U, a as u16, o);
        self.g.evs[e].rval = self.g.evs[w].wval;
        self.g.evs[e].wval = newv;
        self.g.rf[e] = Some(w);
        self.th[t].seen.push(w);
        self.th[t].seen.push(e);
        if !self.guided {
            let pos = self.g.mo[a as usize].iter().position(|&x| x == w).unwrap();
            if pos + 1 != self.g.mo[a as usize].len() {
                self.probe_rmw_nonlatest += 1;
            }
            self.g.mo[a as usize].insert(pos + 1, e);
        }
        e
    }

    fn pick_read(
        &mut self,
        t: usize,
        a: u8,
        o: MO,
        rmw: bool,
        exp: Option<u64>,
        ch: &mut dyn Choose,
    ) -> Result<usize, StepErr> {
        let cands = self.read_candidates(t, a, o, if self.guided { exp } else { None }, rmw);
        if cands.is_empty() {
            return Err(StepErr::Reject(format!(
                "T{} pc{}: value {:?} was never written to a{} (or no consistent store to read)",
                t, self.th[t].pc, exp, a
            )));
        }
        if cands.len() > 1 {
            self.probe_load_multi += 1;
        }
        Ok(cands[ch.choose(cands.len())])
    }

    // ------------------------------------------------------------------ stepping

    /// One phase of `Condvar::wait` (0: enqueue + unlock, 1: wake-up + re-lock).
    fn cv_wait_phase(&mut self, t: usize, pc: usize, c: u8, m: u8, phase: u8, ch: &mut dyn Choose) -> CvPhase {
        let tid = t as u8;
                if phase == 0 {
                    if self.mutex[m as usize].owner != Some(tid) {
                        // not holding the mutex: the op is a no-op
                        return CvPhase::NoOp;
                    } else {
                        let e = self.push_ev(t, pc, EK::Sync, NOLOC, MO::Rlx);
                        self.cv[c as usize].waiters.push(tid);
                        let st = &mut self.mutex[m as usize];
                        st.owner = None;
                        st.last_unlock = Some(e);
                        self.th[t].cv_notified = None;
                        self.th[t].cv_spurious_ok = None;
                        return CvPhase::Enqueued;
                    }
                } else {
                    let e = self.push_ev(t, pc, EK::Sync, NOLOC, MO::Rlx);
                    // why are we awake?
                    let mut srcs: Vec<Option<usize>> = Vec::new(); // alternatives
                    if let Some(n) = self.th[t].cv_notified {
                        srcs.push(Some(n));
                    }
                    let permit_idx: Vec<usize> = self.cv[c as usize]
                        .permits
                        .iter()
                        .enumerate()
                        .filter(|(_, (el, _))| el.contains(&tid))
                        .map(|(i, _)| i)
                        .collect();
                    let n_direct = srcs.len();
                    for _ in &permit_idx {
                        srcs.push(None);
                    }
                    let spur = self.th[t].cv_spurious_ok;
                    if spur.is_some() {
                        srcs.push(None);
                    }
                    assert!(!srcs.is_empty());
                    let k = ch.choose(srcs.len());
                    if k < n_direct {
                        self.g.extra.push((self.th[t].cv_notified.unwrap(), e));
                    } else if k < n_direct + permit_idx.len() {
                        let pi = permit_idx[k - n_direct];
                        let (_, n) = self.cv[c as usize].permits.remove(pi);
                        self.g.extra.push((n, e));
                        self.cv[c as usize].waiters.retain(|&x| x != tid);
                    } else {
                        // spurious (stray unpark): leaves the waiter list
                        self.g.extra.push((spur.unwrap(), e));
                        self.cv[c as usize].waiters.retain(|&x| x != tid);
                        // the stray unpark's token was consumed by the wake-up
                        self.th[t].park_token = false;
                        self.th[t].token_src.clear();
                    }
                    self.th[t].cv_notified = None;
                    self.th[t].cv_spurious_ok = None;
                    // permits of earlier notify_one calls are void for this thread's later waits
                    for (el, _) in self.cv[c as usize].permits.iter_mut() {
                        el.retain(|&x| x != tid);
                    }
                    self.cv[c as usize].permits.retain(|(el, _)| !el.is_empty());
                    let st = &mut self.mutex[m as usize];
                    assert!(st.owner.is_none());
                    st.owner = Some(tid);
                    self.poison_hit |= st.poisoned;
                    if let Some(u) = st.last_unlock {
                        self.g.extra.push((u, e));
                    }
                    self.probe_blocked_then_woken += 1;
                    return CvPhase::Woken;
                }
        #[allow(unreachable_code)]
        CvPhase::NoOp
    }

    fn nwait_step(&mut self, t: usize, pc: usize, n: u8, ch: &mut dyn Choose) {
                let e = self.push_ev(t, pc, EK::Sync, NOLOC, MO::Rlx);
                let may = self.cfg.reading == Reading::May;
                let st = &mut self.notify[n as usize];
                // alternatives: consume the flag / return spuriously
                let can_consume = st.flag;
                let can_spur = may && !st.spurious_used;
                let spur = if can_consume && can_spur {
                    ch.choose(2) == 1
                } else {
                    !can_consume
                };
                if spur {
                    assert!(can_spur);
                    st.spurious_used = true;
                } else {
                    st.flag = false;
                    for s in std::mem::take(&mut st.src) {
                        self.g.extra.push((s, e));
                    }
                    self.probe_blocked_then_woken += 1;
                }
    }

    /// Execute the next (sub-)step of thread `t`. Precondition: `enabled(t)`.
    /// `exp` is the result loom returned for this op (guided replay) - the machine must be able
    /// to produce it. Returns Ok(true) if the op completed (pc advanced).
    pub fn step(&mut self, t: usize, exp: Option<u64>, ch: &mut dyn Choose) -> Result<bool, StepErr> {
        let pc = self.th[t].pc;
        let op0 = self.cur_op(t).expect("step on finished thread");
        let op = match self.effective(t, op0) {
            Some(op) => op,
            None => {
                self.finish_op(t, pc, None);
                return Ok(true);
            }
        };
        let tid = t as u8;
        let caught = op0.is_caught();
        let mut res: Option<u64> = None;
        let mut completed = true;
        match *op {
            Op::Load { a, o } => {
                let w = self.pick_read(t, a, o, false, exp, ch)?;
                self.do_read(t, pc, a, o, w, false);
                res = Some(self.g.evs[w].wval);
            }
            Op::Await { a, o, v } if !self.guided && self.th[t].sub == 0 => {
                // the first check of the loop: any readable store. If it is not the awaited value
                // the thread yields (at least once) and the op completes later with result 1
                // ("had to wait"); further failed checks add nothing observable and are not
                // modelled in walks.
                let cands = self.read_candidates(t, a, o, None, false);
                let w = cands[ch.choose(cands.len())];
                self.do_read(t, pc, a, o, w, false);
                if self.g.evs[w].wval == v {
                    res = Some(0);
                } else {
                    self.th[t].seen_before_yield = self.th[t].seen.clone();
                    self.th[t].sub = 1;
                    completed = false;
                }
            }
            Op::Await { a, o, v } | Op::AwaitY { a, o, v } => {
                if matches!(op, Op::AwaitY { .. }) {
                    // a definite yield
                    self.th[t].seen_before_yield = self.th[t].seen.clone();
                } else {
                    // did the loop have to wait?
                    res = Some(self.th[t].sub as u64);
                    self.th[t].sub = 0;
                }
                let cands = self.read_candidates(t, a, o, Some(v), false);
                if cands.is_empty() {
                    return Err(StepErr::Reject(format!("T{} await: value {} not readable", t, v)));
                }
                let w = cands[ch.choose(cands.len())];
                self.do_read(t, pc, a, o, w, false);
            }
            Op::Store { a, v, o } => {
                self.do_write(t, pc, a, o, v, false, ch);
            }
            Op::Swap { a, v, o } => {
                let w = self.pick_read(t, a, o, true, exp, ch)?;
                self.do_update(t, pc, a, o, w, v);
                res = Some(self.g.evs[w].wval);
            }
            Op::FetchAdd { a, v, o } => {
                let w = self.pick_read(t, a, o, true, exp, ch)?;
                let old = self.g.evs[w].wval;
                self.do_update(t, pc, a, o, w, old.wrapping_add(v));
                res = Some(old);
            }
            Op::Cas { a, e, n, so, fo } => {
                // a CAS that succeeds is an update with the success ordering; one that fails is a
                // plain read with the failure ordering
                let mut cands: Vec<(usize, bool)> = Vec::new();
                if !self.guided || exp == Some(e) {
                    for w in self.read_candidates(t, a, so, Some(e), true) {
                        cands.push((w, true));
                    }
                }
                if !self.guided {
                    let last = *self.g.mo[a as usize].last().unwrap();
                    for w in self.read_candidates(t, a, fo, None, false) {
                        // deviation K5: loom treats a failing CAS like an RMW too (reads the latest store only)
                        if self.cfg.rmw_reads_mo_max_only && w != last {
                            continue;
                        }
                        if self.g.evs[w].wval != e {
                            cands.push((w, false));
                        }
                    }
                } else if exp != Some(e) {
                    for w in self.read_candidates(t, a, fo, exp, false) {
                        cands.push((w, false));
                    }
                }
                if cands.is_empty() {
                    return Err(StepErr::Reject(format!("T{} pc{}: cas result {:?} impossible", t, pc, exp)));
                }
                if cands.len() > 1 {
                    self.probe_load_multi += 1;
                }
                let (w, succ) = cands[ch.choose(cands.len())];
                if succ {
                    self.do_update(t, pc, a, so, w, n);
                } else {
                    self.do_read(t, pc, a, fo, w, false);
                }
                res = Some(self.g.evs[w].wval);
            }
            Op::FetchUpdate { .. } => unimplemented!("FetchUpdate in reference machine"),
            Op::Fence { o } => {
                let e = self.push_ev(t, pc, EK::F, NOLOC, o);
                // [envelope] MUST (largest hb): SeqCst fences synchronise in their total order (the
                // "SC fence = acq-rel RMW on one global location" reading loom documents)
                if o.is_sc() {
                    if let Some(prev) = self.last_sc_fence {
                        if self.cfg.reading == Reading::Must {
                            self.g.extra.push((prev, e));
                        } else {
                            self.extra_large.push((prev, e));
                        }
                    }
                    self.last_sc_fence = Some(e);
                }
            }
            Op::AWithMut { a, v } => {
                self.do_write(t, pc, a, MO::Rlx, v, true, ch);
            }
            Op::AUnsyncLoad { a } => {
                let w = self.pick_read(t, a, MO::Rlx, false, exp, ch)?;
                self.do_read(t, pc, a, MO::Rlx, w, true);
                res = Some(self.g.evs[w].wval);
            }
            Op::Spawn { t: c } => {
                let e = self.push_ev(t, pc, EK::Sync, NOLOC, MO::Rlx);
                let c = c as usize;
                assert!(!self.th[c].started, "thread spawned twice");
                self.th[c].started = true;
                self.th[c].wake_src.push(e);
                let s = self.push_ev(c, 0, EK::Sync, NOLOC, MO::Rlx);
                self.th[c].start_ev = Some(s);
                if self.p.threads[c].is_empty() {
                    self.th[c].done = true;
                }
            }
            Op::Join { t: c } => {
                let e = self.push_ev(t, pc, EK::Sync, NOLOC, MO::Rlx);
                if let Some(l) = self.g.last[c as usize] {
                    self.g.extra.push((l, e));
                }
            }
            Op::Yield => {}
            Op::Park => {
                let e = self.push_ev(t, pc, EK::Sync, NOLOC, MO::Rlx);
                self.th[t].park_token = false;
                for s in std::mem::take(&mut self.th[t].token_src) {
                    self.g.extra.push((s, e));
                }
            }
            Op::Unpark { t: c } => {
                let e = self.push_ev(t, pc, EK::Sync, NOLOC, MO::Rlx);
                let c = c as usize;
                if self.th[c].started && !self.th[c].done {
                    self.th[c].park_token = true;
                    self.th[c].token_src.push(e);
                    // [envelope] MAY: a thread waiting on a condvar may be woken by a stray unpark
                    // (std permits spurious condvar wake-ups)
                    if self.cfg.reading == Reading::May {
                        match self.cur_op(c).and_then(|o| self.effective(c, o)) {
                            Some(Op::CvWait { .. }) if self.th[c].sub == 1 => self.th[c].cv_spurious_ok = Some(e),
                            Some(Op::CvWaitUntil { .. }) if self.th[c].sub == WU_WAIT => self.th[c].cv_spurious_ok = Some(e),
                            _ => {}
                        }
                    }
                }
            }
            Op::Lock { m } => {
                let e = self.push_ev(t, pc, EK::Sync, NOLOC, MO::Rlx);
                let st = &mut self.mutex[m as usize];
                st.owner = Some(tid);
                self.poison_hit |= st.poisoned;
                if let Some(u) = st.last_unlock {
                    self.g.extra.push((u, e));
                }
            }
            Op::TryLock { m } => {
                let e = self.push_ev(t, pc, EK::Sync, NOLOC, MO::Rlx);
                let st = &mut self.mutex[m as usize];
                if st.owner.is_none() {
                    st.owner = Some(tid);
                    self.poison_hit |= st.poisoned;
                    if let Some(u) = st.last_unlock {
                        self.g.extra.push((u, e));
                    }
                    res = Some(1);
                } else {
                    res = Some(0);
                }
            }
            Op::UnwindLock { m } => {
                let e = self.push_ev(t, pc, EK::Sync, NOLOC, MO::Rlx);
                let st = &mut self.mutex[m as usize];
                if st.owner.is_none() {
                    // acquire and release in one step (nothing can run in between)
                    if let Some(u) = st.last_unlock {
                        self.g.extra.push((u, e));
                    }
                    st.last_unlock = Some(e);
                }
            }
            Op::Unlock { m } => {
                let e = self.push_ev(t, pc, EK::Sync, NOLOC, MO::Rlx);
                let st = &mut self.mutex[m as usize];
                if st.owner == Some(tid) {
                    st.owner = None;
                    st.last_unlock = Some(e);
                    // a guard dropped while its thread is panicking poisons the mutex
                    st.poisoned |= caught;
                }
            }
            Op::RLock { l } | Op::TryRLock { l } => {
                let e = self.push_ev(t, pc, EK::Sync, NOLOC, MO::Rlx);
                let must = self.cfg.reading == Reading::Must;
                let st = &mut self.rw[l as usize];
                let ok = st.writer.is_none();
                if ok {
                    st.readers.push(tid);
                    self.poison_hit |= st.poisoned;
                    if let Some(u) = st.last_wunlock {
                        self.g.extra.push((u, e));
                    }
                    // [envelope] MUST: reader -> later reader edge (largest hb)
                    for &u in &st.runlocks {
                        if must {
                            self.g.extra.push((u, e));
                        } else {
                            self.extra_large.push((u, e));
                        }
                    }
                }
                if let Op::TryRLock { .. } = op {
                    res = Some(ok as u64);
                } else {
                    assert!(ok);
                }
            }
            Op::WLock { l } | Op::TryWLock { l } => {
                let e = self.push_ev(t, pc, EK::Sync, NOLOC, MO::Rlx);
                let st = &mut self.rw[l as usize];
                let ok = st.writer.is_none() && st.readers.is_empty();
                if ok {
                    st.writer = Some(tid);
                    self.poison_hit |= st.poisoned;
                    if let Some(u) = st.last_wunlock {
                        self.g.extra.push((u, e));
                    }
                    for &u in &st.runlocks {
                        self.g.extra.push((u, e));
                    }
                }
                if let Op::TryWLock { .. } = op {
                    res = Some(ok as u64);
                } else {
                    assert!(ok);
                }
            }
            Op::RUnlock { l } => {
                let e = self.push_ev(t, pc, EK::Sync, NOLOC, MO::Rlx);
                let st = &mut self.rw[l as usize];
                if let Some(i) = st.readers.iter().position(|&x| x == tid) {
                    st.readers.remove(i);
                    st.runlocks.push(e);
                }
            }
            Op::WUnlock { l } => {
                let e = self.push_ev(t, pc, EK::Sync, NOLOC, MO::Rlx);
                let st = &mut self.rw[l as usize];
                if st.writer == Some(tid) {
                    st.writer = None;
                    st.last_wunlock = Some(e);
                    st.runlocks.clear();
                    // (read guards do not poison)
                    st.poisoned |= caught;
                }
            }
            Op::CvWait { c, m } => {
                let phase = self.th[t].sub;
                match self.cv_wait_phase(t, pc, c, m, phase, ch) {
                    CvPhase::NoOp => {}
                    CvPhase::Enqueued => {
                        self.th[t].sub = 1;
                        completed = false;
                    }
                    CvPhase::Woken => self.th[t].sub = 0,
                }
            }
            Op::CvWaitUntil { c, m, a, o, v } => match self.th[t].sub {
                WU_CHECK => {
                    if self.mutex[m as usize].owner != Some(tid) {
                        // not holding the mutex: the op is a no-op
                    } else {
                        let w = self.pick_read(t, a, o, false, exp, ch)?;
                        self.do_read(t, pc, a, o, w, false);
                        if self.g.evs[w].wval != v {
                            self.th[t].sub = WU_ENQ;
                            completed = false;
                        }
                    }
                }
                WU_ENQ => {
                    match self.cv_wait_phase(t, pc, c, m, 0, ch) {
                        CvPhase::Enqueued => self.th[t].sub = WU_WAIT,
                        _ => unreachable!(),
                    }
                    completed = false;
                }
                _ => {
                    match self.cv_wait_phase(t, pc, c, m, 1, ch) {
                        CvPhase::Woken => self.th[t].sub = WU_CHECK,
                        _ => unreachable!(),
                    }
                    completed = false;
                }
            },
            Op::NWaitUntil { n, a, o, v } => match self.th[t].sub {
                WU_CHECK => {
                    let w = self.pick_read(t, a, o, false, exp, ch)?;
                    self.do_read(t, pc, a, o, w, false);
                    if self.g.evs[w].wval != v {
                        self.th[t].sub = WU_WAIT;
                        completed = false;
                    }
                }
                _ => {
                    self.nwait_step(t, pc, n, ch);
                    self.th[t].sub = WU_CHECK;
                    completed = false;
                }
            },
            Op::CvOne { c } => {
                let e = self.push_ev(t, pc, EK::Sync, NOLOC, MO::Rlx);
                let st = &mut self.cv[c as usize];
                if self.cfg.reading == Reading::Must {
                    // [envelope] MUST: FIFO
                    if !st.waiters.is_empty() {
                        let v = st.waiters.remove(0);
                        self.th[v as usize].cv_notified = Some(e);
                    }
                } else {
                    // [envelope] MAY: any one current waiter, matched lazily
                    let el: Vec<u8> = st
                        .waiters
                        .iter()
                        .cloned()
                        .filter(|&w| self.th[w as usize].cv_notified.is_none())
                        .collect();
                    if !el.is_empty() {
                        st.permits.push((el, e));
                    }
                }
            }
            Op::CvAll { c } => {
                let e = self.push_ev(t, pc, EK::Sync, NOLOC, MO::Rlx);
                let ws: Vec<u8> = std::mem::take(&mut self.cv[c as usize].waiters);
                for v in ws {
                    if self.th[v as usize].cv_notified.is_none() {
                        self.th[v as usize].cv_notified = Some(e);
                    }
                }
                // outstanding notify_one permits stay valid for their eligible sets
            }
            Op::NWait { n } => self.nwait_step(t, pc, n, ch),
            Op::NNotify { n } => {
                let e = self.push_ev(t, pc, EK::Sync, NOLOC, MO::Rlx);
                let st = &mut self.notify[n as usize];
                st.flag = true;
                st.src.push(e);
            }
            // (a message that is received, or drained by the receiver's drop together with what its
            // destructor sends, leaves nothing behind: the same as a plain send)
            Op::Send { c, v } | Op::SendBomb { c, v } => {
                let e = self.push_ev(t, pc, EK::Sync, NOLOC, MO::Rlx);
                let st = &mut self.chan[c as usize];
                if st.rx_alive {
                    st.queue.push_back((v, e));
                    st.sends.push(e);
                } else {
                    st.dead_letters += 1;
                }
            }
            Op::Recv { c } | Op::TryRecv { c } => {
                let e = self.push_ev(t, pc, EK::Sync, NOLOC, MO::Rlx);
                let must = self.cfg.reading == Reading::Must;
                let st = &mut self.chan[c as usize];
                if let Some((v, s)) = st.queue.pop_front() {
                    res = Some(v);
                    // [envelope] MUST: every send up to this one happens-before the receive
                    let upto = st.sends.iter().position(|&x| x == s).unwrap();
                    for &x in &st.sends[..upto] {
                        if must {
                            self.g.extra.push((x, e));
                        } else {
                            self.extra_large.push((x, e));
                        }
                    }
                    self.g.extra.push((s, e));
                } else {
                    assert!(matches!(op, Op::TryRecv { .. }));
                    res = Some(R_EMPTY);
                }
            }
            Op::DropRx { c } => {
                let e = self.push_ev(t, pc, EK::Sync, NOLOC, MO::Rlx);
                let st = &mut self.chan[c as usize];
                // the drop drains the queue
                while let Some((_, s)) = st.queue.pop_front() {
                    self.g.extra.push((s, e));
                }
                st.rx_alive = false;
            }
            Op::DropTx { .. } => {}
            Op::CRead { c } => {
                let e = self.push_ev(t, pc, EK::Sync, CELL_BASE + c as u16, MO::Rlx);
                self.g.evs[e].na = true;
                self.g.evs[e].na_write = false;
                // a race-free read sees the latest write; in a racy execution the value is
                // unspecified (the execution is flagged as a race instead)
                if self.guided {
                    res = exp.or(Some(self.cell_val[c as usize]));
                    if exp.is_some() && exp != Some(self.cell_val[c as usize]) {
                        self.cell_mismatch = true;
                    }
                } else {
                    res = Some(self.cell_val[c as usize]);
                }
            }
            Op::CWrite { c, v } => {
                let e = self.push_ev(t, pc, EK::Sync, CELL_BASE + c as u16, MO::Rlx);
                self.g.evs[e].na = true;
                self.g.evs[e].na_write = true;
                self.cell_val[c as usize] = v;
            }
            Op::ArcClone { r } => {
                self.push_ev(t, pc, EK::Sync, NOLOC, MO::Rlx);
                let st = &mut self.arc[r as usize];
                if st.held[t] > 0 {
                    st.held[t] += 1;
                    st.count += 1;
                }
            }
            Op::ArcDrop { r } | Op::ArcDecStrong { r } => {
                if self.arc[r as usize].held[t] > 0 {
                    if matches!(op, Op::ArcDrop { .. }) {
                        // the holder reads the payload through its handle before dropping it
                        self.arc_payload_access(t, pc, r, false);
                    }
                    let e = self.push_ev(t, pc, EK::Sync, NOLOC, MO::Rlx);
                    let st = &mut self.arc[r as usize];
                    st.held[t] -= 1;
                    st.count -= 1;
                    let prev: Vec<usize> = st.drop_events.clone();
                    st.drop_events.push(e);
                    if st.count == 0 {
                        st.payload_dropped = true;
                        // every earlier drop of a handle happens-before the final one
                        for d in prev {
                            self.g.extra.push((d, e));
                        }
                        // the payload's destructor runs on this thread
                        self.arc_payload_access(t, pc, r, true);
                        res = Some(1);
                    } else {
                        res = Some(0);
                    }
                } else {
                    self.push_ev(t, pc, EK::Sync, NOLOC, MO::Rlx);
                }
            }
            Op::ArcCount { r } => {
                let e = self.push_ev(t, pc, EK::Sync, NOLOC, MO::Rlx);
                if self.arc[r as usize].held[t] > 0 {
                    res = Some(self.arc[r as usize].count as u64);
                    self.arc_acquire(r, e, false);
                }
            }
            Op::ArcGetMut { r } => {
                let e = self.push_ev(t, pc, EK::Sync, NOLOC, MO::Rlx);
                if self.arc[r as usize].held[t] > 0 {
                    let unique = self.arc[r as usize].count == 1;
                    res = Some(unique as u64);
                    self.arc_acquire(r, e, unique);
                    if unique {
                        // exclusive access to the payload
                        self.arc_payload_access(t, pc, r, true);
                    }
                }
            }
            Op::ArcTryUnwrap { r } => {
                let e = self.push_ev(t, pc, EK::Sync, NOLOC, MO::Rlx);
                if self.arc[r as usize].held[t] > 0 {
                    let unique = self.arc[r as usize].count == 1;
                    self.arc_acquire(r, e, unique);
                    if unique {
                        let st = &mut self.arc[r as usize];
                        st.held[t] -= 1;
                        st.count = 0;
                        st.payload_dropped = true;
                        // the payload is handed to this thread and dropped by it
                        self.arc_payload_access(t, pc, r, true);
                        res = Some(1);
                    } else {
                        res = Some(0);
                    }
                }
            }
            Op::ArcForget { r } => {
                let st = &mut self.arc[r as usize];
                if st.held[t] > 0 {
                    st.held[t] -= 1;
                    st.forgotten += 1;
                }
            }
            Op::ArcRawRoundTrip { .. } => {}
            Op::ArcIncStrong { r } => {
                self.push_ev(t, pc, EK::Sync, NOLOC, MO::Rlx);
                let st = &mut self.arc[r as usize];
                if st.held[t] > 0 {
                    st.held[t] += 1;
                    st.count += 1;
                }
            }
            Op::ArcGive { .. } => unimplemented!(),
            Op::ArcReturn { r } => {
                let st = &mut self.arc[r as usize];
                st.returned += st.held[t];
                st.held[t] = 0;
            }
            Op::ArcCollect { r } => {
                let st = &mut self.arc[r as usize];
                st.held[t] += st.returned;
                st.returned = 0;
            }
            Op::TrackNew { k } => self.track_live[t][k as usize] = true,
            Op::TrackDrop { k } => self.track_live[t][k as usize] = false,
            Op::Alloc { k } => self.block_live[t][k as usize] = true,
            Op::Dealloc { k } => self.block_live[t][k as usize] = false,
            Op::TlsWith { k } => {
                // first use on this thread runs the initialiser
                let first = !self.th[t].tls_init[k as usize];
                self.th[t].tls_init[k as usize] = true;
                self.tls_access(t, pc, k);
                res = Some(first as u64);
            }
            Op::TlsNested { k, j } => {
                let fk = !self.th[t].tls_init[k as usize];
                self.th[t].tls_init[k as usize] = true;
                self.tls_access(t, pc, k);
                let fj = !self.th[t].tls_init[j as usize];
                self.th[t].tls_init[j as usize] = true;
                self.tls_access(t, pc, j);
                res = Some(fk as u64 * 2 + fj as u64);
            }
            Op::LazyGet { k } => {
                // first use in the execution initialises (the initialiser writes the value);
                // initialisation happens-before every access
                let loc = LAZY_CELL_BASE + k as u16;
                if self.lazy_init_ev[k as usize].is_none() {
                    let e = self.push_ev(t, pc, EK::Sync, loc, MO::Rlx);
                    self.g.evs[e].na = true;
                    self.g.evs[e].na_write = true;
                    self.lazy_init_ev[k as usize] = Some(e);
                }
                let e = self.push_ev(t, pc, EK::Sync, loc, MO::Rlx);
                self.g.evs[e].na = true;
                self.g.evs[e].na_write = false;
                let init = self.lazy_init_ev[k as usize].unwrap();
                if init != e {
                    self.g.extra.push((init, e));
                }
            }
            Op::BlockOn { a, v, o, reg_first } => {
                completed = false;
                // a fresh block_on starts with a fresh Notify
                if self.th[t].sub == 0 {
                    self.bo[t] = NotifySt::default();
                    self.bo_gen[t] += 1;
                    self.th[t].sub = if reg_first { BO_REG_FIRST } else { BO_CHECK };
                }
                match self.th[t].sub {
                    BO_REG_FIRST | BO_REG_AFTER => {
                        let e = self.push_ev(t, pc, EK::Sync, NOLOC, MO::Rlx);
                        // lock hand-over of the AtomicWaker's internal lock
                        if let Some(u) = self.aw_last_unlock {
                            self.g.extra.push((u, e));
                        }
                        self.aw_last_unlock = Some(e);
                        self.aw_slot = Some((e, tid, self.bo_gen[t]));
                        self.th[t].sub = if self.th[t].sub == BO_REG_FIRST { BO_CHECK } else { BO_WAIT };
                    }
                    BO_CHECK => {
                        let want = if self.guided { exp } else { None };
                        let cands = self.read_candidates(t, a, o, want, false);
                        if cands.is_empty() {
                            return Err(StepErr::Reject(format!("T{} block_on: flag value {:?} not readable", t, exp)));
                        }
                        let w = cands[ch.choose(cands.len())];
                        self.do_read(t, pc, a, o, w, false);
                        if self.g.evs[w].wval == v {
                            completed = true;
                        } else {
                            self.th[t].sub = if reg_first { BO_WAIT } else { BO_REG_AFTER };
                        }
                    }
                    _ => {
                        // BO_WAIT: woken by a notification or (MAY) the one spurious return
                        let e = self.push_ev(t, pc, EK::Sync, NOLOC, MO::Rlx);
                        let may = self.cfg.reading == Reading::May;
                        let st = &mut self.bo[t];
                        let can_consume = st.flag;
                        let can_spur = may && !st.spurious_used;
                        let spur = if can_consume && can_spur { ch.choose(2) == 1 } else { !can_consume };
                        if spur {
                            assert!(can_spur);
                            st.spurious_used = true;
                        } else {
                            st.flag = false;
                            for s in std::mem::take(&mut st.src) {
                                self.g.extra.push((s, e));
                            }
                            self.probe_blocked_then_woken += 1;
                        }
                        self.th[t].sub = if reg_first { BO_REG_FIRST } else { BO_CHECK };
                    }
                }
            }
            Op::SelfWake => {
                // no effect on anything else: the future's own wake-up makes the wait return
                let _ = self.push_ev(t, pc, EK::Sync, NOLOC, MO::Rlx);
            }
            Op::AwWake if self.th[t].sub == 1 => {
                // the tail of wake(): dropping the waker (no effect in the model)
            }
            Op::AwWake => {
                // the effect of wake() is not its last scheduling point (the waker is dropped
                // afterwards): guided replay places it anywhere between invoke and return
                if self.guided {
                    completed = false;
                    self.th[t].sub = 1;
                }
                let e = self.push_ev(t, pc, EK::Sync, NOLOC, MO::Rlx);
                if let Some(u) = self.aw_last_unlock {
                    self.g.extra.push((u, e));
                }
                self.aw_last_unlock = Some(e);
                if let Some((_, owner, gen)) = self.aw_slot.take() {
                    // a waker of a block_on call that has already returned wakes nobody
                    if self.bo_gen[owner as usize] == gen {
                        let st = &mut self.bo[owner as usize];
                        st.flag = true;
                        st.src.push(e);
                    }
                }
            }
            Op::BlockOn2 { a, va, b, vb, o } => {
                completed = false;
                if self.th[t].sub == 0 {
                    self.bo[t] = NotifySt::default();
                    self.bo_gen[t] += 1;
                    // the first poll hands out the waker clones
                    self.waker_slots = [Some((tid, self.bo_gen[t])), Some((tid, self.bo_gen[t]))];
                    self.th[t].sub = BO2_CHECK_A;
                    // a step of its own: the clones are scheduling points, a wake through a slot
                    // can land between the registration and the first load of the first poll
                    return Ok(false);
                }
                match self.th[t].sub {
                    BO2_CHECK_A | BO2_CHECK_B => {
                        let (loc, target) = if self.th[t].sub == BO2_CHECK_A { (a, va) } else { (b, vb) };
                        let want = if self.guided { exp } else { None };
                        let cands = self.read_candidates(t, loc, o, want, false);
                        if cands.is_empty() {
                            return Err(StepErr::Reject(format!("T{} block_on: value {:?} of a{} not readable", t, exp, loc)));
                        }
                        let w = cands[ch.choose(cands.len())];
                        self.do_read(t, pc, loc, o, w, false);
                        if self.g.evs[w].wval != target {
                            self.th[t].sub = BO_WAIT;
                        } else if self.th[t].sub == BO2_CHECK_A {
                            self.th[t].sub = BO2_CHECK_B;
                        } else {
                            self.th[t].sub = BO2_READY;
                        }
                    }
                    BO2_READY => {
                        completed = true;
                    }
                    _ => {
                        let e = self.push_ev(t, pc, EK::Sync, NOLOC, MO::Rlx);
                        let may = self.cfg.reading == Reading::May;
                        let st = &mut self.bo[t];
                        let can_consume = st.flag;
                        let can_spur = may && !st.spurious_used;
                        let spur = if can_consume && can_spur { ch.choose(2) == 1 } else { !can_consume };
                        if spur {
                            assert!(can_spur);
                            st.spurious_used = true;
                        } else {
                            st.flag = false;
                            for s in std::mem::take(&mut st.src) {
                                self.g.extra.push((s, e));
                            }
                            self.probe_blocked_then_woken += 1;
                        }
                        self.th[t].sub = BO2_CHECK_A;
                    }
                }
            }
            Op::SlotWake { .. } if self.th[t].sub == 1 => {}
            Op::SlotWake { i, by_ref } => {
                if self.guided {
                    completed = false;
                    self.th[t].sub = 1;
                }
                let e = self.push_ev(t, pc, EK::Sync, NOLOC, MO::Rlx);
                let slot = if by_ref { self.waker_slots[i as usize] } else { self.waker_slots[i as usize].take() };
                if let Some((owner, gen)) = slot {
                    if self.bo_gen[owner as usize] == gen && !self.th[owner as usize].done {
                        let st = &mut self.bo[owner as usize];
                        st.flag = true;
                        st.src.push(e);
                    }
                }
            }
            Op::StopExploring => self.th[t].in_region = true,
            Op::Explore => self.th[t].in_region = false,
            Op::SkipBranch => {}
            Op::Panic { .. } | Op::Crash => {}
            Op::If { .. } | Op::Caught { .. } => unreachable!(),
        }
        if completed {
            if self.guided {
                if let Some(x) = exp {
                    if res != Some(x) && op.has_result() {
                        return Err(StepErr::Reject(format!(
                            "T{} pc{} {}: loom returned {} but the reference yields {:?}",
                            t, pc, op, fmt_val(x), res.map(fmt_val)
                        )));
                    }
                }
            }
            self.finish_op(t, pc, res);
        }
        Ok(completed)
    }

    /// access to this thread's own instance of thread-local k (a per-thread location)
    fn tls_access(&mut self, t: usize, pc: usize, k: u8) {
        let e = self.push_ev(t, pc, EK::Sync, TLS_CELL_BASE + (t as u16) * 2 + k as u16, MO::Rlx);
        self.g.evs[e].na = true;
        self.g.evs[e].na_write = false;
    }

    /// non-atomic access to the payload of arc `r`
    fn arc_payload_access(&mut self, t: usize, pc: usize, r: u8, write: bool) {
        let e = self.push_ev(t, pc, EK::Sync, ARC_CELL_BASE + r as u16, MO::Rlx);
        self.g.evs[e].na = true;
        self.g.evs[e].na_write = write;
    }

    /// acquire from the handle drops so far. `definite`: the property guarantees the edge
    /// (unique owner); otherwise it only belongs to the largest happens-before.
    fn arc_acquire(&mut self, r: u8, e: usize, definite: bool) {
        let prev: Vec<usize> = self.arc[r as usize].drop_events.clone();
        for d in prev {
            if definite || self.cfg.reading == Reading::Must {
                self.g.extra.push((d, e));
            } else {
                self.extra_large.push((d, e));
            }
        }
    }

    fn finish_op(&mut self, t: usize, pc: usize, res: Option<u64>) {
        self.results[t][pc] = res;
        self.trace.push((t as u8, pc as u16));
        self.th[t].pc += 1;
        self.th[t].sub = 0;
        if self.th[t].pc >= self.p.threads[t].len() {
            self.th[t].done = true;
        }
    }

    /// Terminal classification once no thread is enabled.
    pub fn terminal(&mut self) -> Terminal {
        if self.race.is_some() {
            return Terminal::Race;
        }
        let hb = self.g.hb(self.cfg.reading);
        if let Some(r) = self.g.find_race(&hb) {
            self.race = Some(r);
            return Terminal::Race;
        }
        if self.poison_hit {
            return Terminal::Poison;
        }
        if !self.all_done() {
            return Terminal::Deadlock;
        }
        if let Some(l) = self.leak() {
            return Terminal::Leak(l);
        }
        Terminal::Done
    }

    /// Leak state at quiescence (all threads finished): the kinds of object still held
    pub fn leaks(&self) -> Vec<String> {
        let mut v = Vec::new();
        if self.arc.iter().any(|st| st.count > 0) {
            v.push("Arc".to_string());
        }
        if self.track_live.iter().flatten().any(|&b| b) || self.block_live.iter().flatten().any(|&b| b) {
            v.push("Allocation".to_string());
        }
        // (a message sent after the receiver was dropped is handed back to its sender: the
        // channel does not hold it)
        if self.chan.iter().any(|st| !st.queue.is_empty()) {
            v.push("Messages".to_string());
        }
        v
    }

    pub fn any_lock_poisoned(&self) -> bool {
        self.mutex.iter().any(|m| m.poisoned) || self.rw.iter().any(|l| l.poisoned)
    }

    pub fn leak(&self) -> Option<String> {
        self.leaks().into_iter().next()
    }

    /// Check for a data race now (used after each non-atomic access in walks).
    pub fn check_race_now(&mut self) -> bool {
        let hb = self.g.hb(self.cfg.reading);
        if let Some(r) = self.g.find_race(&hb) {
            self.race = Some(r);
            true
        } else {
            false
        }
    }

    pub fn outcome(&self) -> String {
        outcome_string(self.p, &self.results)
    }

    /// The largest happens-before of the execution replayed so far (MUST reading of release
    /// sequences plus every envelope edge), whatever reading the machine runs under.
    pub fn hb_large(&self) -> Rel {
        let mut g = self.g.clone();
        g.extra.extend(self.extra_large.iter().cloned());
        g.hb(Reading::Must)
    }

    pub fn has_na_events(&self) -> bool {
        self.g.evs.iter().any(|e| e.na)
    }
}

pub fn fmt_val(v: u64) -> String {
    if v == R_ERR {
        "ERR".into()
    } else if v == R_EMPTY {
        "EMPTY".into()
    } else {
        v.to_string()
    }
}

/// Canonical outcome text: the results of all value-returning ops, by thread and pc.
pub fn outcome_string(p: &Program, results: &[Vec<Option<u64>>]) -> String {
    let mut s = String::new();
    for (t, ops) in p.threads.iter().enumerate() {
        for (pc, op) in ops.iter().enumerate() {
            if op.has_result() {
                if !s.is_empty() {
                    s.push(' ');
                }
                match results[t][pc] {
                    Some(v) => s.push_str(&format!("T{}.{}={}", t, pc, fmt_val(v))),
                    None => s.push_str(&format!("T{}.{}=-", t, pc)),
                }
            }
        }
    }
    s
}

/// Scheduler strategies for random MUST-walks.
#[derive(Clone, Copy, Debug, PartialEq, Eq)]
pub enum Strategy {
    Uniform,
    /// run the current thread until it blocks/finishes, preempt with probability 1/4
    RunToBlock,
    /// PCT-like: random thread priorities with a few random priority-change points
    Pct,
}

pub struct WalkResult {
    pub terminal: Terminal,
    pub outcome: String,
    pub schedule: Vec<(u8, u16)>,
    pub steps: usize,
}

/// One seeded random walk of the machine to quiescence.
pub fn random_walk<'p>(m: &mut Machine<'p>, rng: &mut crate::rng::Rng, strat: Strategy) -> WalkResult {
    let nt = m.p.n_threads();
    let mut steps = 0usize;
    let mut cur: Option<usize> = None;
    let mut prio: Vec<usize> = (0..nt).collect();
    rng.shuffle(&mut prio);
    let total = m.p.total_ops() + 4;
    let change_points: Vec<usize> = (0..rng.range(1, 3)).map(|_| rng.below(total)).collect();
    loop {
        let en: Vec<usize> = (0..nt).filter(|&t| m.enabled(t)).collect();
        if en.is_empty() {
            break;
        }
        let forced = match cur {
            Some(c) if m.cfg.switch_only_at_branch_points && en.contains(&c) && m.next_is_nonbranching(c) => Some(c),
            Some(c) if m.cfg.regions_atomic && en.contains(&c) && m.thread_in_region(c) => Some(c),
            _ => None,
        };
        let t = if let Some(c) = forced { c } else { match strat {
            Strategy::Uniform => *rng.pick(&en),
            Strategy::RunToBlock => match cur {
                Some(c) if en.contains(&c) && !rng.chance(1, 4) => c,
                _ => *rng.pick(&en),
            },
            Strategy::Pct => {
                if change_points.contains(&steps) {
                    // demote the currently highest enabled thread
                    let top = *en.iter().max_by_key(|&&t| prio[t]).unwrap();
                    prio[top] = 0;
                    for (i, p) in prio.iter_mut().enumerate() {
                        if i != top {
                            *p += 1;
                        }
                    }
                }
                *en.iter().max_by_key(|&&t| prio[t]).unwrap()
            }
        } };
        cur = Some(t);
        let mut ch = RandomChoose(rng);
        let was_na = m.has_na_events();
        match m.step(t, None, &mut ch) {
            Ok(_) => {}
            Err(StepErr::Reject(r)) => panic!("walk step rejected: {}", r),
        }
        steps += 1;
        if (was_na || m.has_na_events()) && m.check_race_now() {
            break;
        }
        if steps > 10_000 {
            panic!("walk did not terminate");
        }
    }
    let terminal = m.terminal();
    WalkResult { terminal, outcome: m.outcome(), schedule: m.trace.clone(), steps }
}
