//! Metamorphic checks: loom against itself under a changed configuration or fault
//! (C13 determinism / checkpoint resume, C15 preemption bound, C16 isolation, C19 controls+limits).

use crate::cases::*;
use crate::dsl::*;
use crate::interp::*;
use crate::machine::*;
use crate::trace::*;
use serde_json::json;

fn viol(kind: &str, detail: String, ev: serde_json::Value) -> Violation {
    Violation { kind: kind.into(), detail, known: None, evidence: ev }
}

fn base_report(p: &Program) -> CaseReport {
    CaseReport { program: p.text(), program_hash: p.hash(), nontrivial: p.nontrivial(), ..Default::default() }
}

fn scratch_file(tag: &str) -> std::path::PathBuf {
    let dir = std::env::temp_dir().join(format!("verif-sim-{}", std::process::id()));
    let _ = std::fs::create_dir_all(&dir);
    dir.join(format!("{}.json", tag))
}

pub fn cleanup_scratch() {
    let dir = std::env::temp_dir().join(format!("verif-sim-{}", std::process::id()));
    let _ = std::fs::remove_dir_all(dir);
}

/// Signature of a run in a fresh child process (different ASLR / hash seeds).
fn child_signature(p: &Program, cfg: &Config) -> Option<(String, usize, u64)> {
    let f = scratch_file("sigcase");
    std::fs::write(&f, serde_json::to_string(&json!({"program": p, "config": cfg})).ok()?).ok()?;
    let exe = std::env::current_exe().ok()?;
    let out = std::process::Command::new(exe).arg("sig").arg(&f).stderr(std::process::Stdio::null()).output().ok()?;
    let _ = std::fs::remove_file(&f);
    let s = String::from_utf8_lossy(&out.stdout);
    for line in s.lines() {
        if let Some(rest) = line.strip_prefix("SIG ") {
            let parts: Vec<&str> = rest.split('|').collect();
            if parts.len() == 3 {
                return Some((parts[0].to_string(), parts[1].parse().ok()?, u64::from_str_radix(parts[2], 16).ok()?));
            }
        }
    }
    None
}

pub fn sig_main(file: &str) -> i32 {
    install_quiet_panic_hook();
    let s = std::fs::read_to_string(file).unwrap();
    let v: serde_json::Value = serde_json::from_str(&s).unwrap();
    let p: Program = serde_json::from_value(v["program"].clone()).unwrap();
    let cfg: Config = serde_json::from_value(v["config"].clone()).unwrap();
    let (run, tr) = trace_run(&p, &cfg);
    println!("SIG {}|{}|{:016x}", status_text(&run.status), run.iterations, tr.seq_hash());
    0
}

// ------------------------------------------------------------------------------------------ C13

pub fn run_c13_case(p: &Program, cfg: &Config, rng: &mut crate::rng::Rng, max_n: usize, thorough: bool) -> CaseReport {
    let mut rep = base_report(p);
    set_panic_fault(None);
    let (r1, t1) = trace_run(p, cfg);
    rep.iterations = r1.iterations;
    rep.status = status_text(&r1.status);
    rep.too_large = matches!(r1.status, LoomStatus::Capped);
    rep.outcomes_hash = t1.seq_hash();
    // (i) same process, twice
    let (r2, t2) = trace_run(p, cfg);
    if status_text(&r1.status) != status_text(&r2.status) || t1.iter_hashes != t2.iter_hashes || t1.path_hashes != t2.path_hashes {
        let first = t1.iter_hashes.iter().zip(t2.iter_hashes.iter()).position(|(a, b)| a != b);
        rep.violations.push(viol(
            "nondeterministic",
            format!("two runs of the same program in one process differ ({} / {} iterations, first differing iteration {:?})", r1.iterations, r2.iterations, first.map(|x| x + 1)),
            json!({}),
        ));
        return rep;
    }
    let mut n_child = 0u64;
    // (i') another process (every 8th case: process start-up dominates)
    if rng.chance(1, 8) {
        if let Some(sig) = child_signature(p, cfg) {
            n_child += 1;
            let mine = (status_text(&r1.status), r1.iterations, t1.seq_hash());
            if sig != mine {
                rep.violations.push(viol("nondeterministic", format!("a fresh process explores differently: {:?} vs {:?}", sig, mine), json!({})));
                return rep;
            }
        }
    }
    rep.extra.insert("fault_order_other_process".into(), n_child);
    let n = r1.iterations;
    let failing = matches!(r1.status, LoomStatus::Failed { .. });
    if rep.too_large || n == 0 && !failing || n > max_n {
        return rep;
    }
    // (ii) + (iii) checkpoint / resume
    let file = scratch_file("ckpt");
    let fs = file.to_string_lossy().to_string();
    let mut clean_stops = 0u64;
    let mut crash_stops = 0u64;
    let mut resumed_failures = 0u64;
    let mut intervals: Vec<usize> = vec![1, 2, 3, 7, n + 5];
    if !thorough {
        // quick: three of the five intervals per program
        rng.shuffle(&mut intervals);
        intervals.truncate(3);
    }
    let total = n + failing as usize; // iterations including a failing last one
    'outer: for &interval in &intervals {
        // uninterrupted run with the checkpoint file present: identical to the run without it
        let _ = std::fs::remove_file(&file);
        let mut cu = cfg.clone();
        cu.checkpoint_file = Some(fs.clone());
        cu.checkpoint_interval = interval;
        cu.max_permutations = None;
        let (ru, tu) = trace_run(p, &cu);
        if status_text(&ru.status) != status_text(&r1.status) || tu.iter_hashes != t1.iter_hashes {
            rep.violations.push(viol("checkpoint", format!("writing checkpoints (interval {}) changed the exploration: {} vs {} iterations", interval, ru.iterations, n), json!({"interval": interval})));
            break;
        }
        // (iii) the model failed in iteration n+1: the last stored checkpoint (if any) resumes into
        // the tail of the run and ends with the same failure
        if failing {
            let c = (total / interval) * interval; // last boundary <= failing iteration
            if c >= 1 {
                let mut cb = cu.clone();
                cb.max_permutations = None;
                let (rb, tb) = trace_run(p, &cb);
                resumed_failures += 1;
                let expect = &t1.iter_hashes[c - 1..];
                if status_text(&rb.status) != status_text(&r1.status) || tb.iter_hashes != expect {
                    rep.violations.push(viol(
                        "checkpoint",
                        format!("interval {}: resuming from the checkpoint stored at iteration {} should replay {} iterations and then fail like the original run ({}); got {} iterations, {}", interval, c, expect.len(), status_text(&r1.status), rb.iterations, status_text(&rb.status)),
                        json!({"interval": interval, "checkpoint_at": c}),
                    ));
                    break;
                }
            }
            continue;
        }
        let ks: Vec<usize> = if n <= 40 || thorough { (1..=n).collect() } else { (0..40).map(|_| rng.range(1, n)).collect() };
        for &k in &ks {
            // ---- clean stop at the first boundary at/after k
            let _ = std::fs::remove_file(&file);
            let mut ca = cu.clone();
            ca.max_permutations = Some(k);
            let (ra, ta) = trace_run(p, &ca);
            let c = ((k + interval - 1) / interval) * interval; // boundary where loom stops
            clean_stops += 1;
            if c <= n {
                if !matches!(ra.status, LoomStatus::Completed) || ta.iter_hashes[..] != t1.iter_hashes[..c - 1] {
                    rep.violations.push(viol("checkpoint", format!("interval {} max_permutations {}: expected a clean stop after {} iterations, got {} ({})", interval, k, c - 1, ra.iterations, status_text(&ra.status)), json!({"interval": interval, "k": k})));
                    break 'outer;
                }
                let mut cb = cu.clone();
                cb.max_permutations = None;
                let (rb, tb) = trace_run(p, &cb);
                if !matches!(rb.status, LoomStatus::Completed) || tb.iter_hashes[..] != t1.iter_hashes[c - 1..] {
                    let first = tb.iter_hashes.iter().zip(t1.iter_hashes[c - 1..].iter()).position(|(a, b)| a != b);
                    rep.violations.push(viol(
                        "checkpoint",
                        format!("interval {}: stopped at boundary {} and resumed: expected the remaining {} iterations of the uninterrupted run in order, got {} ({}); first difference at resumed iteration {:?}", interval, c, n - (c - 1), rb.iterations, status_text(&rb.status), first.map(|x| x + 1)),
                        json!({"interval": interval, "k": k, "boundary": c}),
                    ));
                    break 'outer;
                }
            }
            // ---- crash in the middle of iteration k (panic injected before main's first op)
            let _ = std::fs::remove_file(&file);
            let fault = PanicFault { tid: 0, pc: 0, hit: k as u32, marker: 7000 + k as u32 };
            set_panic_fault(Some(fault));
            let (rc, tc) = trace_run(p, &cu);
            set_panic_fault(None);
            crash_stops += 1;
            if rc.iterations != k - 1 || tc.iter_hashes[..] != t1.iter_hashes[..k - 1] {
                rep.violations.push(viol("checkpoint", format!("interval {}: crash injected in iteration {}: {} iterations completed before it", interval, k, rc.iterations), json!({"interval": interval, "k": k})));
                break 'outer;
            }
            let c = (k / interval) * interval; // last stored checkpoint (0 = none)
            let from = if c == 0 { 0 } else { c - 1 };
            let (rb, tb) = trace_run(p, &cu);
            if !matches!(rb.status, LoomStatus::Completed) || tb.iter_hashes[..] != t1.iter_hashes[from..] {
                rep.violations.push(viol(
                    "checkpoint",
                    format!("interval {}: crashed in iteration {} (last checkpoint at {}), restarted: expected iterations {}..{} of the uninterrupted run, got {} iterations ({})", interval, k, c, from + 1, n, rb.iterations, status_text(&rb.status)),
                    json!({"interval": interval, "k": k, "checkpoint_at": c}),
                ));
                break 'outer;
            }
            // ---- (iii) a checkpoint stored right before the failing iteration reproduces the
            // failure as the first iteration after loading
            if c == k {
                let _ = std::fs::remove_file(&file);
                set_panic_fault(Some(fault));
                let _ = trace_run(p, &cu);
                // same fault, armed for the first time the op is reached after loading
                set_panic_fault(Some(PanicFault { hit: 1, ..fault }));
                let (rf, _) = trace_run(p, &cu);
                set_panic_fault(None);
                resumed_failures += 1;
                let ok = matches!(&rf.status, LoomStatus::Failed { class: FailClass::UserPanic(m), .. } if *m == fault.marker) && rf.iterations == 0;
                if !ok {
                    rep.violations.push(viol("checkpoint", format!("interval {}: the checkpoint stored before failing iteration {} should fail in the first iteration after loading, got {} after {} iterations", interval, k, status_text(&rf.status), rf.iterations), json!({"interval": interval, "k": k})));
                    break 'outer;
                }
            }
        }
    }
    let _ = std::fs::remove_file(&file);
    rep.extra.insert("fault_clean_stop_and_resume".into(), clean_stops);
    rep.extra.insert("fault_crash_and_resume".into(), crash_stops);
    rep.extra.insert("fault_failing_checkpoint_reloaded".into(), resumed_failures);
    rep.sample = Some(json!({"program": rep.program, "iterations": n, "status": rep.status, "clean_stops": clean_stops, "crash_stops": crash_stops}));
    rep
}

// ------------------------------------------------------------------------------------------ C15

/// Number of definite preemptions in a history: switches away from a thread whose invoked op
/// was enabled in the reference machine when it was invoked and is neither a yield nor a wait.
pub fn count_definite_preemptions(p: &Program, hist: &[HEv]) -> Option<usize> {
    let mut m = Machine::new(p, MachineCfg::may(), true);
    let nt = p.n_threads();
    let mut open: Vec<Option<(usize, bool)>> = vec![None; nt]; // (pc, enabled at invoke)
    let mut foreign = vec![false; nt];
    let mut count = 0usize;
    let mut ch = ScriptChoose::default();
    for ev in hist {
        let t = ev.tid as usize;
        for u in 0..nt {
            if u != t && open[u].is_some() {
                foreign[u] = true;
            }
        }
        match ev.kind {
            HK::Inv => {
                let op = &p.threads[t][ev.pc as usize];
                let voluntary = matches!(op, Op::Yield | Op::Await { .. } | Op::CvWait { .. } | Op::NWait { .. } | Op::Park | Op::Join { .. });
                let en = !voluntary && m.enabled_strict(t);
                open[t] = Some((ev.pc as usize, en));
                foreign[t] = false;
            }
            HK::Ret => {
                if let Some((_, en)) = open[t].take() {
                    if en && foreign[t] {
                        count += 1;
                    }
                }
                if m.in_compound_first_phase(t) {
                    m.step(t, None, &mut ch).ok()?;
                }
                if !m.enabled(t) {
                    return None;
                }
                m.step(t, ev.res, &mut ch).ok()?;
            }
            HK::Spin => {
                m.spin_read(t, ev.res?, &mut ch).ok()?;
            }
            HK::Unwind => {}
        }
    }
    Some(count)
}

pub fn run_c15_case(p: &Program, cfg: &Config) -> CaseReport {
    let mut rep = base_report(p);
    let (r_inf, t_inf) = trace_run(p, cfg);
    rep.iterations = r_inf.iterations;
    rep.status = status_text(&r_inf.status);
    rep.too_large = matches!(r_inf.status, LoomStatus::Capped);
    if !matches!(r_inf.status, LoomStatus::Completed) {
        return rep;
    }
    let total_ops = p.total_ops();
    let mut prev: Option<(usize, std::collections::BTreeSet<String>)> = None;
    let mut bounded_runs = 0u64;
    let mut pruned = 0u64;
    let mut checked_iters = 0u64;
    for n in 0..=6usize {
        let mut c = cfg.clone();
        c.preemption_bound = Some(n);
        let (r, t) = trace_run_opt(p, &c, true);
        bounded_runs += 1;
        match &r.status {
            LoomStatus::Completed => {}
            LoomStatus::Capped => break,
            LoomStatus::Failed { class, msg } => {
                rep.violations.push(viol("bound", format!("preemption_bound = {}: the bounded run failed with {:?} ({}) although the unbounded run completes", n, class, msg.lines().next().unwrap_or("")), json!({"bound": n})));
                break;
            }
        }
        if r.iterations < r_inf.iterations {
            pruned += 1;
        }
        // (a) at most n definite preemptions per execution
        for (i, h) in t.histories.iter().enumerate() {
            checked_iters += 1;
            if let Some(k) = count_definite_preemptions(p, h) {
                if k > n {
                    rep.violations.push(viol(
                        "bound",
                        format!("preemption_bound = {}: iteration {} contains {} switches away from a thread that could have continued", n, i + 1, k),
                        json!({"bound": n, "iteration": i + 1, "history": history_text(h), "path": path_text(&t.paths[i])}),
                    ));
                    break;
                }
            }
        }
        // (b) monotone, and contained in the unbounded set
        if let Some(miss) = t.outcome_set.iter().find(|o| !t_inf.outcome_set.contains(*o)) {
            rep.violations.push(viol("bound", format!("preemption_bound = {} finds outcome [{}] that the unbounded run does not", n, miss), json!({"bound": n})));
        }
        if let Some((pn, pset)) = &prev {
            if let Some(miss) = pset.iter().find(|o| !t.outcome_set.contains(*o)) {
                rep.violations.push(viol("bound", format!("outcome [{}] is found with preemption_bound = {} but not with {}", miss, pn, n), json!({"bound": n})));
            }
        }
        // (c) a bound of at least the number of operations changes nothing
        if n >= total_ops && t.outcome_set != t_inf.outcome_set {
            rep.violations.push(viol("bound", format!("preemption_bound = {} >= {} operations, yet the result set differs from the unbounded one ({} vs {} outcomes)", n, total_ops, t.outcome_set.len(), t_inf.outcome_set.len()), json!({"bound": n})));
        }
        if !rep.violations.is_empty() {
            break;
        }
        prev = Some((n, t.outcome_set.clone()));
    }
    rep.extra.insert("fault_bound_runs".into(), bounded_runs);
    rep.extra.insert("bound_pruned_some_iterations".into(), pruned);
    rep.extra.insert("bounded_iterations_checked".into(), checked_iters);
    rep.loom_outcomes = t_inf.outcome_set.len();
    rep.sample = Some(json!({"program": rep.program, "unbounded_iterations": r_inf.iterations, "unbounded_outcomes": t_inf.outcome_set.iter().take(8).collect::<Vec<_>>()}));
    rep
}
