//! Metamorphic checks: loom against itself under a changed configuration or fault
//! (C13 determinism / checkpoint resume, C15 preemption bound, C16 isolation, C19 controls+limits).

use crate::cases::*;
use crate::dsl::*;
use crate::interp::*;
use crate::machine::*;
use crate::trace::*;
use serde_json::json;

fn viol(kind: &str, detail: String, ev: serde_json::Value) -> Violation {
    Violation { kind: kind.into(), detail, known: None, evidence: ev }
}

fn base_report(p: &Program) -> CaseReport {
    CaseReport { program: p.text(), program_hash: p.hash(), nontrivial: p.nontrivial(), ..Default::default() }
}

fn scratch_file(tag: &str) -> std::path::PathBuf {
    let dir = std::env::temp_dir().join(format!("verif-sim-{}", std::process::id()));
    let _ = std::fs::create_dir_all(&dir);
    dir.join(format!("{}.json", tag))
}

pub fn cleanup_scratch() {
    let dir = std::env::temp_dir().join(format!("verif-sim-{}", std::process::id()));
    let _ = std::fs::remove_dir_all(dir);
}

/// Signature of a run in a fresh child process (different ASLR / hash seeds).
fn child_signature(p: &Program, cfg: &Config) -> Option<(String, usize, u64)> {
    let f = scratch_file("sigcase");
    std::fs::write(&f, serde_json::to_string(&json!({"program": p, "config": cfg})).ok()?).ok()?;
    let exe = std::env::current_exe().ok()?;
    let out = std::process::Command::new(exe).arg("sig").arg(&f).stderr(std::process::Stdio::null()).output().ok()?;
    let _ = std::fs::remove_file(&f);
    let s = String::from_utf8_lossy(&out.stdout);
    for line in s.lines() {
        if let Some(rest) = line.strip_prefix("SIG ") {
            let parts: Vec<&str> = rest.split('|').collect();
            if parts.len() == 3 {
                return Some((parts[0].to_string(), parts[1].parse().ok()?, u64::from_str_radix(parts[2], 16).ok()?));
            }
        }
    }
    None
}

pub fn sig_main(file: &str) -> i32 {
    install_quiet_panic_hook();
    let s = std::fs::read_to_string(file).unwrap();
    let v: serde_json::Value = serde_json::from_str(&s).unwrap();
    let p: Program = serde_json::from_value(v["program"].clone()).unwrap();
    let cfg: Config = serde_json::from_value(v["config"].clone()).unwrap();
    let (run, tr) = trace_run(&p, &cfg);
    println!("SIG {}|{}|{:016x}", status_text(&run.status), run.iterations, tr.seq_hash());
    0
}

// ------------------------------------------------------------------------------------------ C13

pub fn run_c13_case(p: &Program, cfg: &Config, rng: &mut crate::rng::Rng, max_n: usize, thorough: bool) -> CaseReport {
    let mut rep = base_report(p);
    set_panic_fault(None);
    let (r1, t1) = trace_run(p, cfg);
    rep.iterations = r1.iterations;
    rep.status = status_text(&r1.status);
    rep.too_large = matches!(r1.status, LoomStatus::Capped);
    rep.outcomes_hash = t1.seq_hash();
    // (i) same process, twice
    let (r2, t2) = trace_run(p, cfg);
    if status_text(&r1.status) != status_text(&r2.status) || t1.iter_hashes != t2.iter_hashes || t1.path_hashes != t2.path_hashes {
        let first = t1.iter_hashes.iter().zip(t2.iter_hashes.iter()).position(|(a, b)| a != b);
        rep.violations.push(viol(
            "nondeterministic",
            format!("two runs of the same program in one process differ ({} / {} iterations, first differing iteration {:?})", r1.iterations, r2.iterations, first.map(|x| x + 1)),
            json!({}),
        ));
        return rep;
    }
    let mut n_child = 0u64;
    // (i') another process (every 8th case: process start-up dominates)
    if rng.chance(1, 8) {
        if let Some(sig) = child_signature(p, cfg) {
            n_child += 1;
            let mine = (status_text(&r1.status), r1.iterations, t1.seq_hash());
            if sig != mine {
                rep.violations.push(viol("nondeterministic", format!("a fresh process explores differently: {:?} vs {:?}", sig, mine), json!({})));
                return rep;
            }
        }
    }
    rep.extra.insert("fault_order_other_process".into(), n_child);
    let n = r1.iterations;
    let failing = matches!(r1.status, LoomStatus::Failed { .. });
    if rep.too_large || n == 0 && !failing || n > max_n {
        return rep;
    }
    // (ii) + (iii) checkpoint / resume
    let file = scratch_file("ckpt");
    let fs = file.to_string_lossy().to_string();
    let mut clean_stops = 0u64;
    let mut crash_stops = 0u64;
    let mut resumed_failures = 0u64;
    let mut intervals: Vec<usize> = vec![1, 2, 3, 7, n + 5];
    if !thorough {
        // quick: three of the five intervals per program
        rng.shuffle(&mut intervals);
        intervals.truncate(3);
    }
    let total = n + failing as usize; // iterations including a failing last one
    // half of the programs run the whole checkpoint exercise with exactly the branch capacity the
    // exploration needs: a resumed run has the same budget as an uninterrupted one
    let mut cfg = cfg.clone();
    if !failing && t1.max_path >= 1 && rng.chance(1, 2) {
        cfg.max_branches = t1.max_path;
    }
    let cfg = &cfg;
    'outer: for &interval in &intervals {
        // uninterrupted run with the checkpoint file present: identical to the run without it
        let _ = std::fs::remove_file(&file);
        let mut cu = cfg.clone();
        cu.checkpoint_file = Some(fs.clone());
        cu.checkpoint_interval = interval;
        cu.max_permutations = None;
        let (ru, tu) = trace_run(p, &cu);
        if status_text(&ru.status) != status_text(&r1.status) || tu.iter_hashes != t1.iter_hashes {
            rep.violations.push(viol("checkpoint", format!("writing checkpoints (interval {}) changed the exploration: {} vs {} iterations", interval, ru.iterations, n), json!({"interval": interval})));
            break;
        }
        // (iii) the model failed in iteration n+1: the last stored checkpoint (if any) resumes into
        // the tail of the run and ends with the same failure
        if failing {
            let c = (total / interval) * interval; // last boundary <= failing iteration
            if c >= 1 {
                let mut cb = cu.clone();
                cb.max_permutations = None;
                let (rb, tb) = trace_run(p, &cb);
                resumed_failures += 1;
                let expect = &t1.iter_hashes[c - 1..];
                if status_text(&rb.status) != status_text(&r1.status) || tb.iter_hashes != expect {
                    rep.violations.push(viol(
                        "checkpoint",
                        format!("interval {}: resuming from the checkpoint stored at iteration {} should replay {} iterations and then fail like the original run ({}); got {} iterations, {}", interval, c, expect.len(), status_text(&r1.status), rb.iterations, status_text(&rb.status)),
                        json!({"interval": interval, "checkpoint_at": c}),
                    ));
                    break;
                }
            }
            continue;
        }
        let ks: Vec<usize> = if n <= 40 || thorough { (1..=n).collect() } else { (0..40).map(|_| rng.range(1, n)).collect() };
        for &k in &ks {
            // ---- clean stop at the first boundary at/after k
            let _ = std::fs::remove_file(&file);
            let mut ca = cu.clone();
            ca.max_permutations = Some(k);
            let (ra, ta) = trace_run(p, &ca);
            let c = ((k + interval - 1) / interval) * interval; // boundary where loom stops
            clean_stops += 1;
            if c <= n {
                if !matches!(ra.status, LoomStatus::Completed) || ta.iter_hashes[..] != t1.iter_hashes[..c - 1] {
                    rep.violations.push(viol("checkpoint", format!("interval {} max_permutations {}: expected a clean stop after {} iterations, got {} ({})", interval, k, c - 1, ra.iterations, status_text(&ra.status)), json!({"interval": interval, "k": k})));
                    break 'outer;
                }
                let mut cb = cu.clone();
                cb.max_permutations = None;
                let (rb, tb) = trace_run(p, &cb);
                if !matches!(rb.status, LoomStatus::Completed) || tb.iter_hashes[..] != t1.iter_hashes[c - 1..] {
                    let first = tb.iter_hashes.iter().zip(t1.iter_hashes[c - 1..].iter()).position(|(a, b)| a != b);
                    rep.violations.push(viol(
                        "checkpoint",
                        format!("interval {}: stopped at boundary {} and resumed: expected the remaining {} iterations of the uninterrupted run in order, got {} ({}); first difference at resumed iteration {:?}", interval, c, n - (c - 1), rb.iterations, status_text(&rb.status), first.map(|x| x + 1)),
                        json!({"interval": interval, "k": k, "boundary": c}),
                    ));
                    break 'outer;
                }
            }
            // ---- crash in the middle of iteration k (panic injected before main's first op)
            let _ = std::fs::remove_file(&file);
            let fault = PanicFault { tid: 0, pc: 0, hit: k as u32, marker: 7000 + k as u32 };
            set_panic_fault(Some(fault));
            let (rc, tc) = trace_run(p, &cu);
            set_panic_fault(None);
            crash_stops += 1;
            if rc.iterations != k - 1 || tc.iter_hashes[..] != t1.iter_hashes[..k - 1] {
                rep.violations.push(viol("checkpoint", format!("interval {}: crash injected in iteration {}: {} iterations completed before it", interval, k, rc.iterations), json!({"interval": interval, "k": k})));
                break 'outer;
            }
            let c = (k / interval) * interval; // last stored checkpoint (0 = none)
            let from = if c == 0 { 0 } else { c - 1 };
            let (rb, tb) = trace_run(p, &cu);
            if !matches!(rb.status, LoomStatus::Completed) || tb.iter_hashes[..] != t1.iter_hashes[from..] {
                rep.violations.push(viol(
                    "checkpoint",
                    format!("interval {}: crashed in iteration {} (last checkpoint at {}), restarted: expected iterations {}..{} of the uninterrupted run, got {} iterations ({})", interval, k, c, from + 1, n, rb.iterations, status_text(&rb.status)),
                    json!({"interval": interval, "k": k, "checkpoint_at": c}),
                ));
                break 'outer;
            }
            // ---- (iii) a checkpoint stored right before the failing iteration reproduces the
            // failure as the first iteration after loading
            if c == k {
                let _ = std::fs::remove_file(&file);
                set_panic_fault(Some(fault));
                let _ = trace_run(p, &cu);
                // same fault, armed for the first time the op is reached after loading
                set_panic_fault(Some(PanicFault { hit: 1, ..fault }));
                let (rf, _) = trace_run(p, &cu);
                set_panic_fault(None);
                resumed_failures += 1;
                let ok = matches!(&rf.status, LoomStatus::Failed { class: FailClass::UserPanic(m), .. } if *m == fault.marker) && rf.iterations == 0;
                if !ok {
                    rep.violations.push(viol("checkpoint", format!("interval {}: the checkpoint stored before failing iteration {} should fail in the first iteration after loading, got {} after {} iterations", interval, k, status_text(&rf.status), rf.iterations), json!({"interval": interval, "k": k})));
                    break 'outer;
                }
            }
        }
    }
    let _ = std::fs::remove_file(&file);
    rep.extra.insert("fault_clean_stop_and_resume".into(), clean_stops);
    rep.extra.insert("fault_crash_and_resume".into(), crash_stops);
    rep.extra.insert("fault_failing_checkpoint_reloaded".into(), resumed_failures);
    rep.sample = Some(json!({"program": rep.program, "iterations": n, "status": rep.status, "clean_stops": clean_stops, "crash_stops": crash_stops}));
    rep
}

// ------------------------------------------------------------------------------------------ C15

/// Number of definite preemptions in a history: switches away from a thread whose invoked op
/// was enabled in the reference machine when it was invoked and is neither a yield nor a wait.
pub fn count_definite_preemptions(p: &Program, hist: &[HEv]) -> Option<usize> {
    let mut m = Machine::new(p, MachineCfg::may(), true);
    let nt = p.n_threads();
    let mut open: Vec<Option<(usize, bool)>> = vec![None; nt]; // (pc, enabled at invoke)
    let mut foreign = vec![false; nt];
    // a thread that called yield_now while nothing else could run keeps its offer standing in
    // loom: the first later switch away from it is that yield taking effect, not a preemption
    let mut yield_pending = vec![false; nt];
    let mut count = 0usize;
    let mut ch = ScriptChoose::default();
    for ev in hist {
        if ev.kind == HK::Note {
            continue;
        }
        let t = ev.tid as usize;
        for u in 0..nt {
            if u != t && open[u].is_some() {
                foreign[u] = true;
            }
        }
        match ev.kind {
            HK::Inv => {
                let op = &p.threads[t][ev.pc as usize];
                let voluntary = matches!(op, Op::Yield | Op::Await { .. } | Op::AwaitY { .. } | Op::CvWait { .. } | Op::NWait { .. } | Op::Park | Op::Join { .. });
                let en = !voluntary && m.enabled_strict(t);
                open[t] = Some((ev.pc as usize, en));
                foreign[t] = false;
            }
            HK::Ret => {
                if let Some((pc, en)) = open[t].take() {
                    if foreign[t] {
                        if en && !yield_pending[t] {
                            count += 1;
                        }
                        yield_pending[t] = false;
                    } else if matches!(p.threads[t][pc].inner(), Op::Yield) {
                        yield_pending[t] = true;
                    }
                }
                if m.in_compound_first_phase(t) {
                    m.step(t, None, &mut ch).ok()?;
                }
                if !m.enabled(t) {
                    return None;
                }
                m.step(t, ev.res, &mut ch).ok()?;
            }
            HK::Spin => {
                m.spin_read(t, ev.res?, &mut ch).ok()?;
            }
            HK::Unwind | HK::Note => {}
        }
    }
    Some(count)
}

/// A result that one run finds and another does not: which results a run finds depends on the
/// order of execution exactly where loom deviates from RC11 (known findings). The result may be
/// one that is invalid but produced by K3, or a valid one that the other run loses to K5 / K8.
/// Attributed the same way as in the validity / completeness oracles; `found_by` is the trace (with
/// histories) of the run that found it.
fn attribute_result_set_difference(p: &Program, outcome: &str, found_by: &Trace) -> Option<String> {
    let i = found_by.outcomes.iter().position(|o| o == outcome)?;
    let h = found_by.histories.get(i)?;
    let may = MachineCfg::may();
    if crate::cases::k3_applicable(p) && crate::oracle::replay_may(p, h, &may, false).is_err() {
        let mut dev = may.clone();
        dev.dev = crate::graph::Deviation { at_ignores_plain_stores: true };
        if crate::oracle::replay_may(p, h, &dev, false).map(|a| !a.results.is_empty()).unwrap_or(false) {
            return Some("K3-rmw-atomicity-vs-racing-store".to_string());
        }
        return None;
    }
    let target = crate::oracle::parse_outcome(p, outcome);
    let mut d = MachineCfg::must();
    d.rmw_reads_mo_max_only = true;
    if crate::oracle::outcome_reachable(p, &d, &target, 3_000_000) == Some(false) {
        return Some("K5-rmw-reads-only-latest-store".to_string());
    }
    let mut d = MachineCfg::must();
    d.sc_load_skips_overwritten_sc_store = true;
    if crate::oracle::outcome_reachable(p, &d, &target, 3_000_000) == Some(false) {
        return Some("K8-seqcst-load-assumes-execution-order".to_string());
    }
    None
}

pub fn run_c15_case(p: &Program, cfg: &Config) -> CaseReport {
    let mut rep = base_report(p);
    let (r_inf, t_inf) = trace_run(p, cfg);
    rep.iterations = r_inf.iterations;
    rep.status = status_text(&r_inf.status);
    rep.too_large = matches!(r_inf.status, LoomStatus::Capped);
    if !matches!(r_inf.status, LoomStatus::Completed) {
        return rep;
    }
    let total_ops = p.total_ops();
    let yields = p.threads.iter().flatten().any(|o| matches!(o.inner(), Op::Yield | Op::Await { .. } | Op::AwaitY { .. }));
    let mut prev: Option<(usize, Trace)> = None;
    let mut bounded_runs = 0u64;
    let mut pruned = 0u64;
    let mut checked_iters = 0u64;
    for n in 0..=6usize {
        let mut c = cfg.clone();
        c.preemption_bound = Some(n);
        let (r, t) = trace_run_opt(p, &c, true);
        bounded_runs += 1;
        match &r.status {
            LoomStatus::Completed => {}
            LoomStatus::Capped => break,
            // (a program that yields: the unbounded run is no yardstick for failures either)
            LoomStatus::Failed { .. } if yields => break,
            LoomStatus::Failed { class, msg } => {
                rep.violations.push(viol("bound", format!("preemption_bound = {}: the bounded run failed with {:?} ({}) although the unbounded run completes", n, class, msg.lines().next().unwrap_or("")), json!({"bound": n})));
                break;
            }
        }
        if r.iterations < r_inf.iterations {
            pruned += 1;
        }
        // (a) at most n definite preemptions per execution
        for (i, h) in t.histories.iter().enumerate() {
            checked_iters += 1;
            if let Some(k) = count_definite_preemptions(p, h) {
                if k > n {
                    rep.violations.push(viol(
                        "bound",
                        format!("preemption_bound = {}: iteration {} contains {} switches away from a thread that could have continued", n, i + 1, k),
                        json!({"bound": n, "iteration": i + 1, "history": history_text(h), "path": path_text(&t.paths[i])}),
                    ));
                    break;
                }
            }
        }
        if yields {
            // result sets of programs that yield are not compared (see checks.rs)
            if !rep.violations.is_empty() {
                break;
            }
            continue;
        }
        // (b) monotone, and contained in the unbounded set
        if let Some(miss) = t.outcome_set.iter().find(|o| !t_inf.outcome_set.contains(*o)) {
            let mut v = viol("bound", format!("preemption_bound = {} finds outcome [{}] that the unbounded run does not", n, miss), json!({"bound": n}));
            v.known = attribute_result_set_difference(p, miss, &t);
            rep.violations.push(v);
        }
        if let Some((pn, ptrace)) = &prev {
            if let Some(miss) = ptrace.outcome_set.iter().find(|o| !t.outcome_set.contains(*o)) {
                let mut v = viol("bound", format!("outcome [{}] is found with preemption_bound = {} but not with {}", miss, pn, n), json!({"bound": n}));
                v.known = attribute_result_set_difference(p, miss, ptrace);
                rep.violations.push(v);
            }
        }
        // (c) a bound of at least the number of operations changes nothing
        if n >= total_ops && t.outcome_set != t_inf.outcome_set && rep.violations.is_empty() {
            let mut v = viol("bound", format!("preemption_bound = {} >= {} operations, yet the result set differs from the unbounded one ({} vs {} outcomes)", n, total_ops, t.outcome_set.len(), t_inf.outcome_set.len()), json!({"bound": n}));
            // (only the direction unbounded -> bounded is left here; the other one is clause (b))
            if let Some(miss) = t_inf.outcome_set.iter().find(|o| !t.outcome_set.contains(*o)) {
                let (_, t_inf_full) = trace_run_opt(p, cfg, true);
                v.known = attribute_result_set_difference(p, miss, &t_inf_full);
            }
            rep.violations.push(v);
        }
        if !rep.violations.is_empty() {
            break;
        }
        prev = Some((n, t));
    }
    rep.extra.insert("fault_bound_runs".into(), bounded_runs);
    rep.extra.insert("bound_pruned_some_iterations".into(), pruned);
    rep.extra.insert("bounded_iterations_checked".into(), checked_iters);
    rep.loom_outcomes = t_inf.outcome_set.len();
    rep.sample = Some(json!({"program": rep.program, "unbounded_iterations": r_inf.iterations, "unbounded_outcomes": t_inf.outcome_set.iter().take(8).collect::<Vec<_>>()}));
    rep
}

// ------------------------------------------------------------------------------------------ C16

/// a model that misbehaves in some way, run before / alongside the subject
fn disturber(rng: &mut crate::rng::Rng) -> (Program, Option<PanicFault>) {
    match rng.below(5) {
        0 => {
            // panics in the middle of its exploration
            let pr = crate::gen::litmus_profile(rng, false);
            let p = crate::gen::gen_litmus(rng, &pr);
            let t = rng.below(p.n_threads());
            let pc = if p.threads[t].is_empty() { 0 } else { rng.below(p.threads[t].len()) };
            (p, Some(PanicFault { tid: t as u8, pc: pc as u16, hit: rng.range(1, 3) as u32, marker: 4242 }))
        }
        1 => (crate::gen::gen_arc(rng, true), None),
        2 => {
            let pr = crate::gen::sync_profile(rng, "deadlock");
            (crate::gen::gen_sync(rng, &pr), None)
        }
        3 => (crate::gen::gen_race(rng), None),
        _ => {
            let pr = crate::gen::sync_profile(rng, "wait");
            (crate::gen::gen_sync(rng, &pr), None)
        }
    }
}

pub fn run_c16_case(p: &Program, cfg: &Config, rng: &mut crate::rng::Rng) -> CaseReport {
    let mut rep = base_report(p);
    set_panic_fault(None);
    // baseline: the subject as the first model of a fresh process
    let base = match child_signature(p, cfg) {
        Some(b) => b,
        None => {
            rep.violations.push(viol("harness", "could not obtain the fresh-process signature".into(), json!({})));
            return rep;
        }
    };
    rep.iterations = base.1;
    rep.status = base.0.clone();
    rep.too_large = base.0 == "capped";
    let mut back_to_back = 0u64;
    let mut concurrent = 0u64;
    let mut handoffs = 0u64;
    let mut stalls = 0u64;
    // ---- (1) back to back in this process, after 1-3 disturbers
    let nd = rng.range(1, 3);
    let mut dist_desc = Vec::new();
    for _ in 0..nd {
        let (d, fault) = disturber(rng);
        let mut dc = Config::default();
        dc.iter_cap = 300;
        set_panic_fault(fault);
        let (dr, _) = trace_run(&d, &dc);
        set_panic_fault(None);
        dist_desc.push(format!("{} -> {}", d.text(), status_text(&dr.status)));
    }
    let (r, t) = trace_run(p, cfg);
    back_to_back += 1;
    let mine = (status_text(&r.status), r.iterations, t.seq_hash());
    if mine != base {
        rep.violations.push(viol(
            "isolation",
            format!("after other models ran in the process the subject explores differently: {:?} vs fresh-process {:?}", mine, base),
            json!({"earlier_models": dist_desc}),
        ));
    }
    if let Some((it, tids)) = &t.bad_tids {
        rep.violations.push(viol("isolation", format!("iteration {}: thread ids do not restart at the main thread: {:?}", it, tids), json!({})));
    }
    // ---- (1b) every iteration starts from the same initial state: re-running the tail of the
    // exploration from a checkpoint in a brand-new execution (fresh clocks, objects, threads) must
    // visit exactly what the continuous run visited - state that leaks from one iteration into the
    // next makes the two differ
    let mut fresh_replays = 0u64;
    if rep.violations.is_empty() && matches!(r.status, LoomStatus::Completed) && r.iterations >= 2 && r.iterations <= 150 {
        let file = scratch_file("iso");
        let fs = file.to_string_lossy().to_string();
        let n = r.iterations;
        let mut ks: Vec<usize> = (0..6).map(|_| rng.range(2, n)).collect();
        ks.sort();
        ks.dedup();
        for k in ks {
            let _ = std::fs::remove_file(&file);
            let mut ca = cfg.clone();
            ca.checkpoint_file = Some(fs.clone());
            ca.checkpoint_interval = 1;
            ca.max_permutations = Some(k);
            let _ = trace_run(p, &ca);
            let mut cb = ca.clone();
            cb.max_permutations = None;
            let (rb, tb) = trace_run(p, &cb);
            fresh_replays += 1;
            if !matches!(rb.status, LoomStatus::Completed) || tb.iter_hashes[..] != t.iter_hashes[k - 1..] {
                let first = tb.iter_hashes.iter().zip(t.iter_hashes[k - 1..].iter()).position(|(a, b)| a != b);
                rep.violations.push(viol(
                    "isolation",
                    format!("iterations {}..{} re-run in a fresh execution (from the checkpoint of iteration {}) differ from the continuous run: {} vs {} iterations, first difference at offset {:?} - state of earlier iterations leaked", k, n, k, rb.iterations, n - k + 1, first),
                    json!({"k": k}),
                ));
                break;
            }
        }
        let _ = std::fs::remove_file(&file);
    }
    rep.extra.insert("fault_fresh_execution_replays".into(), fresh_replays);
    // ---- (2) concurrently with 1-2 other OS threads running models, interleaved by the turnstile
    if rep.violations.is_empty() && !rep.too_large && r.iterations <= 400 {
        let n_other = rng.range(1, 2);
        let ts = std::sync::Arc::new(Turnstile::new(n_other + 1, crate::rng::Rng::new(rng.next_u64())));
        if rng.chance(1, 3) {
            // stall fault: one OS thread is starved for a long stretch
            let mut st = ts.state.lock().unwrap();
            st.stalled = Some(rng.below(n_other + 1));
            st.stall_left = rng.range(20, 200) as u64;
            stalls += 1;
        }
        let mut handles = Vec::new();
        let mut descs = Vec::new();
        for i in 0..n_other {
            let (d, fault) = disturber(rng);
            descs.push(d.text());
            let ts2 = ts.clone();
            handles.push(std::thread::spawn(move || {
                let me = i + 1;
                set_gate(Some((ts2.clone(), me)));
                ts2.wait_turn(me);
                let mut dc = Config::default();
                dc.iter_cap = 200;
                set_panic_fault(fault);
                let (dr, _) = trace_run(&d, &dc);
                set_panic_fault(None);
                set_gate(None);
                ts2.finish(me);
                status_text(&dr.status)
            }));
        }
        set_gate(Some((ts.clone(), 0)));
        ts.wait_turn(0);
        let (rc, tc) = trace_run(p, cfg);
        set_gate(None);
        ts.finish(0);
        let mut others = Vec::new();
        for h in handles {
            others.push(h.join().unwrap_or_else(|_| "os-thread-panicked".into()));
        }
        concurrent += 1;
        handoffs += ts.state.lock().unwrap().handoffs;
        let mine = (status_text(&rc.status), rc.iterations, tc.seq_hash());
        if mine != base {
            rep.violations.push(viol(
                "isolation",
                format!("with models running on other OS threads the subject explores differently: {:?} vs fresh-process {:?}", mine, base),
                json!({"other_models": descs, "other_status": others}),
            ));
        }
        if let Some((it, tids)) = &tc.bad_tids {
            rep.violations.push(viol("isolation", format!("iteration {} (concurrent run): thread ids do not restart at the main thread: {:?}", it, tids), json!({})));
        }
    }
    rep.extra.insert("fault_back_to_back_runs".into(), back_to_back);
    rep.extra.insert("fault_concurrent_os_thread_runs".into(), concurrent);
    rep.extra.insert("turnstile_handoffs".into(), handoffs);
    rep.extra.insert("fault_stalled_os_thread".into(), stalls);
    rep.extra.insert("fault_order_other_process".into(), 1);
    rep.sample = Some(json!({"program": rep.program, "fresh_process_signature": format!("{:?}", base), "earlier_models": dist_desc}));
    rep
}

// ------------------------------------------------------------------------------------------ C19

fn unexplorable_branch_advanced(path: &[loom::verif::Branch]) -> Option<usize> {
    use loom::verif::{Branch, ThreadStatus};
    for (i, b) in path.iter().enumerate() {
        match b {
            Branch::Schedule { threads, exploring: false, .. } => {
                if threads.iter().any(|t| matches!(t, ThreadStatus::Pending | ThreadStatus::Visited)) {
                    return Some(i);
                }
            }
            Branch::Load { pos, exploring: false, .. } => {
                if *pos != 0 {
                    return Some(i);
                }
            }
            Branch::Spurious { spur: true, exploring: false } => return Some(i),
            _ => {}
        }
    }
    None
}

pub fn run_c19_case(p: &Program, cfg: &Config, rng: &mut crate::rng::Rng) -> CaseReport {
    let mut rep = base_report(p);
    set_panic_fault(None);
    let (r0, t0) = trace_run(p, cfg);
    rep.iterations = r0.iterations;
    rep.status = status_text(&r0.status);
    rep.too_large = matches!(r0.status, LoomStatus::Capped);
    if !matches!(r0.status, LoomStatus::Completed) {
        return rep;
    }
    let n = r0.iterations;
    let may = MachineCfg::may();
    let mut control_runs = 0u64;
    let mut region_restricted = 0u64;
    let mut limit_runs = 0u64;
    let mut clock_runs = 0u64;
    let mut sim_clock_ms = 0u64;

    // ---- (a) exploration controls at op boundaries of one thread
    let variants = 4;
    for v in 0..variants {
        let mut q = p.clone();
        let t = rng.below(q.n_threads());
        let len = q.threads[t].len();
        let kind = if v == 0 { 0 } else { rng.below(4) };
        // positions: i <= j
        let i = rng.below(len + 1);
        let j = i + rng.below(len + 1 - i);
        let mut qc = cfg.clone();
        // (thread, ascending list of (index in the NEW op list, op)) to insert
        let (tt, ins): (usize, Vec<(usize, Op)>) = match kind {
            0 => (t, vec![(i, Op::StopExploring), (i + 1, Op::Explore)]),
            1 => (t, vec![(i, Op::StopExploring), (j + 1, Op::Explore)]),
            2 => (t, vec![(i, Op::SkipBranch)]),
            _ => {
                // start without exploring, switch it on at position i of main
                qc.expect_explicit_explore = true;
                (0, vec![(i.min(q.threads[0].len()), Op::Explore)])
            }
        };
        // fix up If references (original index -> new index), then insert
        for op in q.threads[tt].iter_mut() {
            if let Op::If { pc, .. } = op {
                let mut cur = *pc as usize;
                for (at, _) in &ins {
                    if cur >= *at {
                        cur += 1;
                    }
                }
                *pc = cur as u8;
            }
        }
        for (at, op) in &ins {
            q.threads[tt].insert(*at, op.clone());
        }
        let shifts: Vec<usize> = ins.iter().map(|x| x.0).collect();
        // a skip_branch() that only some iterations execute (conditional on a value read by
        // another thread), combined with a region: what one iteration skips must not change how
        // the controls behave in later iterations
        if kind == 1 && rng.chance(1, 2) {
            let cands: Vec<(usize, usize)> = (0..q.n_threads())
                .filter(|&u| u != tt)
                .flat_map(|u| q.threads[u].iter().enumerate().filter(|(_, o)| matches!(o, Op::Load { .. })).map(move |(i, _)| (u, i)))
                .collect();
            if !cands.is_empty() {
                let (u, li) = *rng.pick(&cands);
                let eq = if let Op::Load { a, .. } = q.threads[u][li] { q.atomics[a as usize] } else { 0 };
                q.threads[u].push(Op::If { pc: li as u8, eq, then: Box::new(Op::SkipBranch) });
            }
        }
        // main's spawns must stay first so that thread bodies exist: only valid if the inserted op
        // did not move a Spawn behind a Join; inserting ops never reorders, fine.
        let (r, t1) = trace_run_opt(&q, &qc, true);
        control_runs += 1;
        match &r.status {
            LoomStatus::Completed => {}
            LoomStatus::Capped => continue,
            LoomStatus::Failed { class, msg } => {
                // explore()/stop_exploring() assert their state: stop_exploring while not exploring
                // (kind 3 region before Explore) cannot happen with our placements
                rep.violations.push(viol("controls", format!("with exploration controls ({}) the run failed: {:?} {}", q.text(), class, msg.lines().next().unwrap_or("")), json!({"program": q.text()})));
                break;
            }
        }
        if r.iterations < n {
            region_restricted += 1;
        }
        // results are a subset of the unrestricted ones. Outcomes are keyed by (thread, pc): map
        // the restricted program's outcomes back by dropping the inserted ops (they have no result)
        let remap = |o: &String| -> String { remap_outcome(o, tt, &shifts) };
        for o in &t1.outcome_set {
            let back = remap(o);
            if !t0.outcome_set.contains(&back) {
                rep.violations.push(viol("controls", format!("with exploration controls the run produced outcome [{}] that the unrestricted run does not have", back), json!({"program": q.text()})));
                break;
            }
        }
        if kind == 0 && (r.iterations != n || t1.outcome_set.len() != t0.outcome_set.len()) {
            rep.violations.push(viol("controls", format!("an empty stop_exploring/explore region changed the exploration: {} iterations / {} outcomes instead of {} / {}", r.iterations, t1.outcome_set.len(), n, t0.outcome_set.len()), json!({"program": q.text()})));
        }
        if kind == 3 && i == 0 && (r.iterations != n) {
            rep.violations.push(viol("controls", format!("expect_explicit_explore with explore() as the first call should equal the default: {} vs {} iterations", r.iterations, n), json!({"program": q.text()})));
        }
        for (k, path) in t1.paths.iter().enumerate() {
            // every operation with a scheduling point that is invoked while exploration is switched
            // off creates at least one branch that is marked as not explorable
            let need = branching_invokes_while_off(&q, &t1.histories[k], qc.expect_explicit_explore);
            let have = path
                .iter()
                .filter(|b| match b {
                    loom::verif::Branch::Schedule { exploring, .. } => !*exploring,
                    loom::verif::Branch::Load { exploring, .. } => !*exploring,
                    loom::verif::Branch::Spurious { exploring, .. } => !*exploring,
                })
                .count();
            if have < need {
                rep.violations.push(viol(
                    "controls",
                    format!("iteration {}: {} operations with a scheduling point ran between stop_exploring()/skip_branch() and explore(), but only {} branches are marked as not explorable - the region was not honoured", k + 1, need, have),
                    json!({"program": q.text(), "history": history_text(&t1.histories[k]), "path": path_text(path)}),
                ));
                break;
            }
            if let Some(b) = unexplorable_branch_advanced(path) {
                rep.violations.push(viol("controls", format!("iteration {}: branch {} was created with exploration disabled but an alternative of it was explored", k + 1, b), json!({"program": q.text(), "path": path_text(path)})));
                break;
            }
            if k > 0 {
                if let Err(e) = crate::oracle::o4_step(&t1.paths[k - 1], path) {
                    rep.violations.push(viol("controls", format!("iteration {} is not the depth-first successor of iteration {}: {}", k + 1, k, e), json!({"program": q.text()})));
                    break;
                }
            }
        }
        if let Some(last) = t1.paths.last() {
            if let Some(b) = crate::oracle::o4_first_open(last) {
                rep.violations.push(viol("controls", format!("the run ended although branch {} (exploration enabled) still had an unexplored alternative", b), json!({"program": q.text()})));
            }
        }
        // every execution remains valid
        for (k, h) in t1.histories.iter().enumerate().take(200) {
            if let Err(e) = crate::oracle::replay_may(&q, h, &may, false) {
                let mut dev = MachineCfg::may();
                dev.dev = crate::graph::Deviation { at_ignores_plain_stores: true };
                if crate::cases::k3_applicable(&q) && crate::oracle::replay_may(&q, h, &dev, false).map(|a| !a.results.is_empty()).unwrap_or(false) {
                    continue; // K3, reported by C03
                }
                rep.violations.push(viol("controls", format!("iteration {} under exploration controls is not a valid execution: {}", k + 1, e), json!({"program": q.text(), "history": history_text(h)})));
                break;
            }
        }
        if !rep.violations.is_empty() {
            break;
        }
    }

    // ---- (a') decisions OUTSIDE a region are still fully explored: put a region around a
    // stretch of stores of one thread (its effect is deterministic: no preemption inside, nothing
    // is read inside) and demand every outcome of the reference in which that stretch is atomic
    let mut completeness_runs = 0u64;
    if rep.violations.is_empty() {
        let mut spots: Vec<(usize, usize, usize)> = Vec::new();
        for (t, ops) in p.threads.iter().enumerate() {
            let mut i = 0;
            while i < ops.len() {
                if matches!(ops[i], Op::Store { .. }) {
                    let mut j = i;
                    while j < ops.len() && matches!(ops[j], Op::Store { .. } | Op::Fence { .. }) {
                        j += 1;
                    }
                    spots.push((t, i, j));
                    i = j;
                } else {
                    i += 1;
                }
            }
        }
        let has_if = p.threads.iter().flatten().any(|o| matches!(o, Op::If { .. }));
        if !spots.is_empty() && !has_if && !crate::checks::has_try_acquire(p) && !crate::checks::has_unpark_order_sensitivity(p) && !crate::checks::has_yield(p) {
            let (t, i, j) = *rng.pick(&spots);
            let mut q = p.clone();
            q.threads[t].insert(j, Op::Explore);
            q.threads[t].insert(i, Op::StopExploring);
            let (r, t1) = trace_run(&q, cfg);
            completeness_runs += 1;
            if matches!(r.status, LoomStatus::Completed) {
                let mut mc = MachineCfg::must();
                mc.sc_atomics = true;
                mc.regions_atomic = true;
                let ws = crate::oracle::must_walks(&q, &mc, rng, 64, 512);
                for (out, sched) in &ws.outcomes {
                    if !t1.outcome_set.contains(out) {
                        rep.violations.push(viol(
                            "controls",
                            format!("a region around stores only: outcome [{}] needs no alternative inside the region (reference schedule attached) but none of the {} iterations produced it - decisions outside the region are not fully explored", out, r.iterations),
                            json!({"program": q.text(), "ref_schedule": sched, "loom_outcomes": t1.outcome_set.iter().collect::<Vec<_>>()}),
                        ));
                        break;
                    }
                }
            }
        }
    }
    rep.extra.insert("fault_region_completeness_runs".into(), completeness_runs);

    // ---- (b) limits
    if rep.violations.is_empty() && n >= 1 {
        // max_branches: exact
        let need = t0.max_path;
        if need >= 2 {
            let mut c = cfg.clone();
            // every value below the need ("all limit values around the exact need": the limit may
            // strike at a scheduling branch, a reads-from branch or a spurious-wake-up branch)
            let budgets: Vec<usize> = if need <= 32 { (1..need).collect() } else { vec![need / 2, need - 3, need - 2, need - 1] };
            for b in budgets {
                c.max_branches = b;
                let (r, _) = trace_run(p, &c);
                limit_runs += 1;
                let ok = matches!(&r.status, LoomStatus::Failed { class: FailClass::BranchLimit, .. });
                if !ok {
                    rep.violations.push(viol("limits", format!("max_branches = {} (the longest execution needs {}): expected the documented branch-limit panic, got {}", b, need, status_text(&r.status)), json!({})));
                    break;
                }
            }
            c.max_branches = need;
            let (r, t) = trace_run(p, &c);
            limit_runs += 1;
            if !matches!(r.status, LoomStatus::Completed) || t.iter_hashes != t0.iter_hashes {
                rep.violations.push(viol("limits", format!("max_branches = {} (exactly needed): expected the unrestricted exploration, got {} after {} iterations", need, status_text(&r.status), r.iterations), json!({})));
            }
        }
        // max_threads: one less than the program needs
        let nt = p.n_threads();
        if nt >= 2 {
            let mut c = cfg.clone();
            c.max_threads = nt - 1;
            let (r, _) = trace_run(p, &c);
            limit_runs += 1;
            if !matches!(r.status, LoomStatus::Failed { .. }) {
                rep.violations.push(viol("limits", format!("max_threads = {} but the program runs {} threads: expected a panic, got {}", nt - 1, nt, status_text(&r.status)), json!({})));
            }
            c.max_threads = nt;
            let (r, t) = trace_run(p, &c);
            limit_runs += 1;
            if !matches!(r.status, LoomStatus::Completed) || t.iter_hashes != t0.iter_hashes {
                rep.violations.push(viol("limits", format!("max_threads = {} (exactly needed): expected the unrestricted exploration, got {}", nt, status_text(&r.status)), json!({})));
            }
        }
        // max_permutations: stop between iterations, no later than the first boundary at/after m
        for _ in 0..3 {
            let interval = *rng.pick(&[1usize, 2, 3, 5, 8]);
            let m = rng.range(1, n + 2);
            let mut c = cfg.clone();
            c.checkpoint_interval = interval;
            c.max_permutations = Some(m);
            let (r, t) = trace_run(p, &c);
            limit_runs += 1;
            let boundary = ((m + interval - 1) / interval) * interval;
            let allowed = (boundary - 1).min(n).max(0);
            let ok_prefix = t.iter_hashes.len() <= t0.iter_hashes.len() && t.iter_hashes[..] == t0.iter_hashes[..t.iter_hashes.len()];
            if !matches!(r.status, LoomStatus::Completed) || r.iterations > allowed.max(m.min(n)) || !ok_prefix {
                rep.violations.push(viol(
                    "limits",
                    format!("max_permutations = {} with checkpoint_interval {}: the run should end without failure after at most {} iterations (first boundary {}), got {} after {}", m, interval, allowed.max(m.min(n)), boundary, status_text(&r.status), r.iterations),
                    json!({"m": m, "interval": interval}),
                ));
            }
        }
        // max_duration against the simulated clock (hook H2): per-iteration advance drawn from
        // {0, small, huge jump}
        for _ in 0..3 {
            let interval = *rng.pick(&[1usize, 2, 3, 5]);
            let limit_ms = rng.range(1, 50) as u64;
            let advances: Vec<u64> = (0..n + 2).map(|_| *rng.pick(&[0u64, 0, 1, 1, 2, 5, 1000])).collect();
            let clock = std::rc::Rc::new(std::cell::Cell::new(0u64));
            let iters_done = std::rc::Rc::new(std::cell::Cell::new(0usize));
            let c2 = clock.clone();
            loom::verif::set_clock_hook(Some(Box::new(move || std::time::Duration::from_millis(c2.get()))));
            let mut c = cfg.clone();
            c.checkpoint_interval = interval;
            c.max_duration_ms = Some(limit_ms);
            // both limits may be configured at once; the permutation budget here is never reached
            if rng.chance(1, 2) {
                c.max_permutations = Some(n + 100);
            }
            // run with a per-iteration clock advance
            let adv = advances.clone();
            let clk = clock.clone();
            let done = iters_done.clone();
            let run = run_loom(p, &c, move |_h, _t, _p| {
                let k = done.get();
                clk.set(clk.get() + adv[k.min(adv.len() - 1)]);
                done.set(k + 1);
            });
            loom::verif::set_clock_hook(None);
            clock_runs += 1;
            sim_clock_ms += clock.get();
            // expected: loop index i = completed+1; at a boundary (i % interval == 0) with
            // elapsed >= limit the run returns
            let mut elapsed = 0u64;
            let mut expect = n;
            for done_so_far in 0..n {
                let i = done_so_far + 1;
                if i % interval == 0 && elapsed >= limit_ms {
                    expect = done_so_far;
                    break;
                }
                elapsed += advances[done_so_far.min(advances.len() - 1)];
            }
            if !matches!(run.status, LoomStatus::Completed) || run.iterations > expect {
                rep.violations.push(viol(
                    "limits",
                    format!("max_duration = {} ms, checkpoint_interval {} under the simulated clock: the run should end without failure after at most {} iterations, got {} after {}", limit_ms, interval, expect, status_text(&run.status), run.iterations),
                    json!({"limit_ms": limit_ms, "interval": interval, "advances": advances}),
                ));
            }
        }
    }
    rep.extra.insert("fault_control_region_runs".into(), control_runs);
    rep.extra.insert("control_region_restricted_exploration".into(), region_restricted);
    rep.extra.insert("fault_limit_runs".into(), limit_runs);
    rep.extra.insert("fault_clock_runs".into(), clock_runs);
    rep.extra.insert("simulated_clock_ms".into(), sim_clock_ms);
    rep.sample = Some(json!({"program": rep.program, "iterations": n, "outcomes": t0.outcome_set.iter().take(6).collect::<Vec<_>>()}));
    rep
}

/// Number of ops with a scheduling point invoked while the (global) exploring flag is off.
fn branching_invokes_while_off(p: &Program, h: &[HEv], starts_off: bool) -> usize {
    let mut off = starts_off;
    let mut skipping = false;
    let mut n = 0;
    for e in h {
        let op = &p.threads[e.tid as usize][e.pc as usize];
        let mut o = op;
        let mut taken = true;
        // an If whose condition is false does nothing; we cannot see the condition from the Inv
        // event, so conditional ops are only counted as control ops when they return
        while let Op::If { then, .. } = o {
            o = then;
            taken = false;
        }
        match e.kind {
            HK::Ret => {
                if !taken {
                    // conditional op: executed iff the referenced result equals eq
                    if let Op::If { pc, eq, .. } = op {
                        let cond = h.iter().any(|x| x.kind == HK::Ret && x.tid == e.tid && x.pc == *pc as u16 && x.res == Some(*eq));
                        if !cond {
                            continue;
                        }
                    }
                }
                match o {
                    Op::StopExploring => {
                        if !skipping {
                            off = true
                        }
                    }
                    Op::Explore => {
                        if !skipping {
                            off = false
                        }
                    }
                    Op::SkipBranch => {
                        off = true;
                        skipping = true;
                    }
                    _ => {}
                }
            }
            HK::Inv => {
                if off && taken && has_branch_point(o) {
                    n += 1;
                }
            }
            _ => {}
        }
    }
    n
}

fn has_branch_point(o: &Op) -> bool {
    matches!(
        o,
        Op::Load { .. }
            | Op::Store { .. }
            | Op::Swap { .. }
            | Op::FetchAdd { .. }
            | Op::Cas { .. }
            | Op::Lock { .. }
            | Op::TryLock { .. }
            | Op::RLock { .. }
            | Op::WLock { .. }
            | Op::TryRLock { .. }
            | Op::TryWLock { .. }
            | Op::CvOne { .. }
            | Op::CvAll { .. }
            | Op::NNotify { .. }
            | Op::Send { .. }
            | Op::SendBomb { .. }
            | Op::Yield
    )
}

/// Map an outcome of the program with inserted control ops back to the original pcs.
/// `inserted`: ascending indices (in the new op list of `thread`) of the inserted ops.
fn remap_outcome(o: &str, thread: usize, inserted: &[usize]) -> String {
    let mut parts = Vec::new();
    for tok in o.split_whitespace() {
        let (lhs, rhs) = tok.split_once('=').unwrap();
        let (t, pc) = lhs[1..].split_once('.').unwrap();
        let t: usize = t.parse().unwrap();
        let mut pc: usize = pc.parse().unwrap();
        if t == thread {
            pc -= inserted.iter().filter(|&&x| x < pc).count();
        }
        parts.push(format!("T{}.{}={}", t, pc, rhs));
    }
    parts.join(" ")
}
